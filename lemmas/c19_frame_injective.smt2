; property: C19, C09, C11
; expect: unsat
; The framing used by hash.WriteAny, "(" ++ u64(|d|) ++ d ++ u64(|b|) ++ b ++ ")", is uniquely decodable from the left:
; two framed items followed by arbitrary rests are equal only if domains, payloads and rests are equal.
; u64be is the 8-byte big-endian encoding (fixed length, injective on 0 <= n < 2^64).
(set-logic ALL)
(define-sort Bytes () (Seq (_ BitVec 8)))
(declare-fun u64be (Int) Bytes)
(assert (forall ((n Int)) (= (seq.len (u64be n)) 8)))
(assert (forall ((n Int) (m Int)) (=> (and (<= 0 n) (<= 0 m) (= (u64be n) (u64be m))) (= n m))))
(declare-const lp Bytes)
(declare-const rp Bytes)
(assert (= (seq.len lp) 1))
(assert (= (seq.len rp) 1))
(define-fun frame ((d Bytes) (b Bytes)) Bytes
  (seq.++ lp (u64be (seq.len d)) d (u64be (seq.len b)) b rp))
(declare-const d1 Bytes) (declare-const b1 Bytes) (declare-const r1 Bytes)
(declare-const d2 Bytes) (declare-const b2 Bytes) (declare-const r2 Bytes)
(assert (= (seq.++ (frame d1 b1) r1) (seq.++ (frame d2 b2) r2)))
(assert (not (and (= d1 d2) (= b1 b2) (= r1 r2))))
(check-sat)
