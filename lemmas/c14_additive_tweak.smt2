; property: C14
; expect: unsat
; Composition lemma over the Doerner Derive contracts (additive two-party sharing, Y = (a + b)*G):
;   receiver contract:  a' = a + t            sender contract:  b' = b          both:  Y' = Y + t*G
; Claim: the derived shares are a sharing of the derived key, (a' + b')*G = Y'.
; Group axioms used: associativity/commutativity of scalar addition, act distributes over scalar addition.
(set-logic ALL)
(declare-sort F 0)
(declare-sort P 0)
(declare-fun s_add (F F) F)
(declare-fun p_add (P P) P)
(declare-fun act (F P) P)
(declare-const G P)
(declare-const a F) (declare-const b F) (declare-const t F)
(declare-const a2 F) (declare-const b2 F)
(declare-const Y P) (declare-const Y2 P)
(assert (forall ((x F) (y F)) (= (s_add x y) (s_add y x))))
(assert (forall ((x F) (y F) (z F)) (= (s_add (s_add x y) z) (s_add x (s_add y z)))))
(assert (forall ((x F) (y F)) (= (act (s_add x y) G) (p_add (act x G) (act y G)))))
(assert (= Y (act (s_add a b) G)))            ; parent sharing (C02)
(assert (= a2 (s_add a t)))                   ; ConfigReceiver.Derive post
(assert (= b2 b))                             ; ConfigSender.Derive post
(assert (= Y2 (p_add Y (act t G))))           ; both Derive posts
(assert (not (= (act (s_add a2 b2) G) Y2)))
(check-sat)
