-- property: C12
-- assumes: P and Q are distinct primes (ValidatePrime checks size and residue only; key generation samples Blum primes)
-- assumes: the nonce is a unit modulo N (sample.UnitModN)
-- assumes: phiInv is a true inverse of phi modulo N (gcd(N, phi) = 1; holds for two odd primes of equal bit length)
-- assumes: modexp / modinv / symmod in the contracts are the textbook functions (A-NT)
-- Textbook correctness of Paillier decryption for the formula the real code computes. The contracts pin the VALUES:
--   NewSecretKeyFromPrimes : N = P*Q, phi = (P-1)(Q-1), phiInv = phi^-1 mod N, N^2, N+1
--   EncWithNonce(m, rho)   : (N+1)^m * rho^N mod N^2                  (signed exponent for negative m)
--   Dec(c)                 : symmod( (((c^phi mod N^2) - 1) / N) * phiInv mod N , N )
-- The theorems below say: for distinct primes p, q, a nonce coprime to N and ANY plaintext, the number under symmod is
-- m mod N (paillier_decrypt); a signed exponent is a natural one modulo N (one_add_pow_self_modEq); and the symmetric
-- representative of m mod N is m itself for every m with 2|m| < N, i.e. on the whole range [-(N-1)/2, (N-1)/2]
-- including the endpoints (symm_of_emod). Together: decryption inverts encryption on the full plaintext domain.
-- Hypotheses not established by the code: p and q prime and distinct (ValidatePrime checks size and residue only;
-- key generation samples Blum primes), the nonce a unit (sample.UnitModN), and phiInv a true inverse of phi mod N
-- (gcd(N, phi) = 1 holds for two odd primes of equal bit length: p cannot divide q - 1 < 2p, which is even). Checked by the Lean 4 kernel; the proof
-- uses only the standard axioms (propext, Classical.choice, Quot.sound).
import Mathlib.FieldTheory.Finite.Basic
import Mathlib.Tactic

open Nat

-- Step 1: in a commutative ring, if n^2 = 0 then (1+n)^k = 1 + k*n
theorem one_add_pow_of_sq_zero {R : Type*} [CommRing R] (n : R) (hn : n ^ 2 = 0) (k : ℕ) :
    (1 + n) ^ k = 1 + k * n := by
  induction k with
  | zero => simp
  | succ k ih =>
    rw [pow_succ, ih]
    push_cast
    linear_combination (k : R) * hn

-- Step 1': as a congruence of natural numbers
theorem one_add_pow_modEq (N k : ℕ) : (1 + N) ^ k ≡ 1 + k * N [MOD N ^ 2] := by
  rw [← ZMod.natCast_eq_natCast_iff]
  push_cast
  apply one_add_pow_of_sq_zero
  have : ((N ^ 2 : ℕ) : ZMod (N ^ 2)) = 0 := ZMod.natCast_self _
  push_cast at this
  exact this

-- Step 2: the totient of (p*q)^2
theorem totient_sq_of_primes {p q : ℕ} (hp : p.Prime) (hq : q.Prime) (hpq : p ≠ q) :
    φ ((p * q) ^ 2) = (p * q) * ((p - 1) * (q - 1)) := by
  have hc : Nat.Coprime (p ^ 2) (q ^ 2) := by
    apply Nat.Coprime.pow
    exact (Nat.coprime_primes hp hq).2 hpq
  rw [mul_pow, Nat.totient_mul hc, Nat.totient_prime_pow hp (by norm_num), Nat.totient_prime_pow hq (by norm_num)]
  simp
  ring

-- Step 3: raising a Paillier ciphertext to phi kills the nonce and leaves 1 + (m*phi)*N
theorem pow_phi_modEq {p q : ℕ} (hp : p.Prime) (hq : q.Prime) (hpq : p ≠ q) (m ρ c : ℕ)
    (hρ : Nat.Coprime ρ (p * q))
    (hc : c ≡ (1 + p * q) ^ m * ρ ^ (p * q) [MOD (p * q) ^ 2]) :
    c ^ ((p - 1) * (q - 1)) ≡ 1 + (m * ((p - 1) * (q - 1))) * (p * q) [MOD (p * q) ^ 2] := by
  set N := p * q with hN
  set f := (p - 1) * (q - 1) with hf
  have h1 : c ^ f ≡ ((1 + N) ^ m * ρ ^ N) ^ f [MOD N ^ 2] := hc.pow f
  have h2 : ((1 + N) ^ m * ρ ^ N) ^ f = (1 + N) ^ (m * f) * ρ ^ (N * f) := by
    rw [mul_pow, ← pow_mul, ← pow_mul]
  have h3 : (1 + N) ^ (m * f) ≡ 1 + (m * f) * N [MOD N ^ 2] := one_add_pow_modEq N (m * f)
  have h4 : ρ ^ (N * f) ≡ 1 [MOD N ^ 2] := by
    have hcop : Nat.Coprime ρ (N ^ 2) := Nat.Coprime.pow_right 2 hρ
    have := Nat.ModEq.pow_totient hcop
    rwa [totient_sq_of_primes hp hq hpq] at this
  calc c ^ f ≡ ((1 + N) ^ m * ρ ^ N) ^ f [MOD N ^ 2] := h1
    _ = (1 + N) ^ (m * f) * ρ ^ (N * f) := h2
    _ ≡ (1 + (m * f) * N) * 1 [MOD N ^ 2] := h3.mul h4
    _ = 1 + (m * f) * N := by ring

-- Step 4: reading k mod N out of 1 + k*N modulo N^2 with L(x) = (x - 1) / N
theorem L_of_one_add_mul (N k : ℕ) (hN : 1 < N) : ((1 + k * N) % N ^ 2 - 1) / N = k % N := by
  have hdecomp : 1 + k * N = (1 + (k % N) * N) + N ^ 2 * (k / N) := by
    have := Nat.mod_add_div k N
    nlinarith [this]
  have hlt : 1 + (k % N) * N < N ^ 2 := by
    have := Nat.mod_lt k (by omega : N > 0)
    nlinarith [this]
  rw [hdecomp, Nat.add_mul_mod_self_left, Nat.mod_eq_of_lt hlt]
  simp [Nat.mul_div_cancel _ (by omega : 0 < N)]

-- Textbook Paillier correctness for the formula pkg/paillier.(*SecretKey).Dec computes (contract of Dec):
--   Dec(c) = symmod( (((c^phi mod N^2) - 1) / N) * phiInv mod N , N )
-- for c = (1+N)^m * rho^N mod N^2, N = p*q with distinct primes, phi = (p-1)(q-1), phiInv = phi^-1 mod N:
-- the number under symmod is m mod N.
theorem paillier_decrypt {p q : ℕ} (hp : p.Prime) (hq : q.Prime) (hpq : p ≠ q) (m ρ c finv : ℕ)
    (hρ : Nat.Coprime ρ (p * q))
    (hc : c ≡ (1 + p * q) ^ m * ρ ^ (p * q) [MOD (p * q) ^ 2])
    (hinv : (p - 1) * (q - 1) * finv ≡ 1 [MOD p * q]) :
    (((c ^ ((p - 1) * (q - 1)) % (p * q) ^ 2 - 1) / (p * q)) * finv) % (p * q) = m % (p * q) := by
  have hN : 1 < p * q := by
    have := hp.two_le
    have := hq.two_le
    nlinarith
  have h := pow_phi_modEq hp hq hpq m ρ c hρ hc
  rw [h, L_of_one_add_mul _ _ hN]
  -- ((m * f) % N * finv) % N = m % N
  have : (m * ((p - 1) * (q - 1))) % (p * q) * finv ≡ m [MOD p * q] := by
    calc (m * ((p - 1) * (q - 1))) % (p * q) * finv ≡ (m * ((p - 1) * (q - 1))) * finv [MOD p * q] :=
          (Nat.mod_modEq _ _).mul_right _
      _ = m * ((p - 1) * (q - 1) * finv) := by ring
      _ ≡ m * 1 [MOD p * q] := hinv.mul_left m
      _ = m := by ring
  exact this

-- Signed plaintexts: (1+N)^N = 1 mod N^2, so a negative exponent -k (the inverse power EncWithNonce computes with
-- ExpI) is the natural exponent N - k, i.e. the ciphertext of a signed m is the ciphertext of m mod N ...
theorem one_add_pow_self_modEq (N : ℕ) : (1 + N) ^ N ≡ 1 [MOD N ^ 2] := by
  have h := one_add_pow_modEq N N
  have h2 : 1 + N * N ≡ 1 [MOD N ^ 2] := by
    have : 1 + N * N = 1 + N ^ 2 * 1 := by ring
    rw [this]
    simp [Nat.ModEq]
  exact h.trans h2

-- ... and the symmetric representative (SetModSymmetric) of m mod N is m again whenever 2|m| < N,
-- i.e. for every plaintext in [-(N-1)/2, (N-1)/2] (N is odd)
theorem symm_of_emod (N : ℕ) (m : ℤ) (h : 2 * |m| < N) :
    (if 2 * (m % (N : ℤ)) < N then m % (N : ℤ) else m % (N : ℤ) - N) = m := by
  have hN : (0 : ℤ) < N := by
    have := abs_nonneg m
    omega
  rcases le_or_gt 0 m with hm | hm
  · have hlt : m < N := by
      rw [abs_of_nonneg hm] at h
      omega
    rw [Int.emod_eq_of_lt hm hlt]
    rw [abs_of_nonneg hm] at h
    simp [h]
  · have habs : |m| = -m := abs_of_neg hm
    rw [habs] at h
    have h1 : m % (N : ℤ) = m + N := by
      have : m % (N : ℤ) = (m + N) % (N : ℤ) := by simp
      rw [this, Int.emod_eq_of_lt (by omega) (by omega)]
    rw [h1]
    have : ¬ (2 * (m + N) < (N : ℤ)) := by omega
    simp [this]
