-- property: C12
-- assumes: P and Q are distinct primes; N^-1 mod phi is a true inverse (gcd(N, phi) = 1)
-- assumes: modexp / modinv in the contracts are the textbook functions (A-NT)
-- The recovered randomness re-encrypts to the same ciphertext. The contract of DecWithRandomness pins the VALUE of the
-- nonce it returns:  r = ( c * (N+1)^(-m) mod N ) ^ (N^-1 mod phi) mod N   with m the decrypted plaintext.
-- recovered_nonce: for distinct primes and a unit nonce rho this r is rho modulo N ((N+1)^(-m) is 1 modulo N; Euler's
-- theorem modulo N with phi(N) = (p-1)(q-1)). pow_N_modEq_of_modEq: a nonce is determined modulo N - r = rho (mod N)
-- gives r^N = rho^N (mod N^2). reencrypt_with_recovered_nonce: hence (N+1)^m * r^N = c (mod N^2), which is the value
-- EncWithNonce(m, r) is proved to return. Hypotheses not established by the code: p, q distinct primes,
-- N^-1 mod phi a true inverse (gcd(N, phi) = 1). Checked by the Lean 4 kernel.
import Mathlib.FieldTheory.Finite.Basic
import Mathlib.Tactic

open Nat

-- in a commutative ring, b^2 = 0 gives (a+b)^(k+1) = a^(k+1) + (k+1) a^k b
theorem add_pow_succ_of_sq_zero {R : Type*} [CommRing R] (a b : R) (hb : b ^ 2 = 0) (k : ℕ) :
    (a + b) ^ (k + 1) = a ^ (k + 1) + (k + 1 : ℕ) * a ^ k * b := by
  induction k with
  | zero => simp
  | succ k ih =>
    rw [pow_succ, ih]
    push_cast
    linear_combination ((k + 1 : R) * a ^ k) * hb

-- a nonce is determined modulo N: r ≡ ρ (mod N) gives r^N ≡ ρ^N (mod N^2)
theorem pow_N_modEq_of_modEq (N r ρ : ℕ) (hN : 0 < N) (h : r ≡ ρ [MOD N]) : r ^ N ≡ ρ ^ N [MOD N ^ 2] := by
  -- wlog write the larger as the smaller plus a multiple of N
  have key : ∀ a t : ℕ, (a + t * N) ^ N ≡ a ^ N [MOD N ^ 2] := by
    intro a t
    rw [← ZMod.natCast_eq_natCast_iff]
    push_cast
    obtain ⟨k, rfl⟩ : ∃ k, N = k + 1 := ⟨N - 1, by omega⟩
    have hsq : ((t : ZMod ((k + 1) ^ 2)) * ((k + 1 : ℕ) : ZMod ((k + 1) ^ 2))) ^ 2 = 0 := by
      have : (((k + 1) ^ 2 : ℕ) : ZMod ((k + 1) ^ 2)) = 0 := ZMod.natCast_self _
      push_cast at this
      rw [mul_pow]
      push_cast
      rw [this, mul_zero]
    have := add_pow_succ_of_sq_zero (a : ZMod ((k + 1) ^ 2)) ((t : ZMod ((k + 1) ^ 2)) * ((k + 1 : ℕ) : ZMod ((k + 1) ^ 2))) hsq k
    push_cast at this ⊢
    rw [this]
    have h0 : (((k + 1) ^ 2 : ℕ) : ZMod ((k + 1) ^ 2)) = 0 := ZMod.natCast_self _
    push_cast at h0
    linear_combination ((a : ZMod ((k + 1) ^ 2)) ^ k * t) * h0
  rcases le_total ρ r with hle | hle
  · obtain ⟨t, ht⟩ : ∃ t, r = ρ + t * N := by
      have : N ∣ r - ρ := (Nat.modEq_iff_dvd' hle).1 h.symm
      obtain ⟨t, ht⟩ := this
      exact ⟨t, by rw [mul_comm]; omega⟩
    rw [ht]
    exact key ρ t
  · obtain ⟨t, ht⟩ : ∃ t, ρ = r + t * N := by
      have : N ∣ ρ - r := (Nat.modEq_iff_dvd' hle).1 h
      obtain ⟨t, ht⟩ := this
      exact ⟨t, by rw [mul_comm]; omega⟩
    rw [ht]
    exact (key r t).symm

-- exponents may be reduced modulo any f with ρ^f ≡ 1
theorem pow_modEq_of_exp_modEq (N f ρ a b : ℕ) (hρf : ρ ^ f ≡ 1 [MOD N]) (h : a ≡ b [MOD f]) :
    ρ ^ a ≡ ρ ^ b [MOD N] := by
  have key : ∀ x t : ℕ, ρ ^ (x + f * t) ≡ ρ ^ x [MOD N] := by
    intro x t
    rw [pow_add, pow_mul]
    calc ρ ^ x * (ρ ^ f) ^ t ≡ ρ ^ x * 1 ^ t [MOD N] := (hρf.pow t).mul_left _
      _ = ρ ^ x := by simp
  rcases le_total b a with hle | hle
  · obtain ⟨t, ht⟩ : ∃ t, a = b + f * t := by
      have : f ∣ a - b := (Nat.modEq_iff_dvd' hle).1 h.symm
      obtain ⟨t, ht⟩ := this
      exact ⟨t, by omega⟩
    rw [ht]; exact key b t
  · obtain ⟨t, ht⟩ : ∃ t, b = a + f * t := by
      have : f ∣ b - a := (Nat.modEq_iff_dvd' hle).1 h
      obtain ⟨t, ht⟩ := this
      exact ⟨t, by omega⟩
    rw [ht]; exact (key a t).symm

theorem totient_of_primes {p q : ℕ} (hp : p.Prime) (hq : q.Prime) (hpq : p ≠ q) :
    φ (p * q) = (p - 1) * (q - 1) := by
  rw [Nat.totient_mul ((Nat.coprime_primes hp hq).2 hpq), Nat.totient_prime hp, Nat.totient_prime hq]

-- The nonce DecWithRandomness recovers (its contract): ( c * (N+1)^(-m) mod N ) ^ (N^-1 mod phi) mod N, where u stands
-- for the value of (N+1)^(-m) mod N - a power of N+1, hence 1 modulo N. It is the original nonce modulo N ...
theorem recovered_nonce {p q : ℕ} (hp : p.Prime) (hq : q.Prime) (hpq : p ≠ q) (m ρ c u ninv : ℕ)
    (hρ : Nat.Coprime ρ (p * q))
    (hc : c ≡ (1 + p * q) ^ m * ρ ^ (p * q) [MOD (p * q) ^ 2])
    (hu : u ≡ 1 [MOD p * q])
    (hninv : p * q * ninv ≡ 1 [MOD (p - 1) * (q - 1)]) :
    ((u * c) % (p * q)) ^ ninv ≡ ρ [MOD p * q] := by
  set N := p * q with hN
  have hcN : c ≡ (1 + N) ^ m * ρ ^ N [MOD N] := hc.of_dvd (Dvd.intro_left (N ^ 1) (by ring))
  have h1 : (1 + N) ^ m ≡ 1 [MOD N] := by
    have : 1 + N ≡ 1 [MOD N] := by simp [Nat.ModEq]
    simpa using this.pow m
  have hx : (u * c) % N ≡ ρ ^ N [MOD N] := by
    calc (u * c) % N ≡ u * c [MOD N] := Nat.mod_modEq _ _
      _ ≡ 1 * ((1 + N) ^ m * ρ ^ N) [MOD N] := hu.mul hcN
      _ ≡ 1 * (1 * ρ ^ N) [MOD N] := (h1.mul_right _).mul_left _
      _ = ρ ^ N := by ring
  have hρf : ρ ^ ((p - 1) * (q - 1)) ≡ 1 [MOD N] := by
    have := Nat.ModEq.pow_totient hρ
    rwa [totient_of_primes hp hq hpq] at this
  calc ((u * c) % N) ^ ninv ≡ (ρ ^ N) ^ ninv [MOD N] := hx.pow _
    _ = ρ ^ (N * ninv) := (pow_mul ρ N ninv).symm
    _ ≡ ρ ^ 1 [MOD N] := pow_modEq_of_exp_modEq N _ ρ _ _ hρf hninv
    _ = ρ := pow_one ρ

-- ... and therefore re-encrypting the plaintext with it gives the same ciphertext
theorem reencrypt_with_recovered_nonce (N m ρ r c : ℕ) (hN : 0 < N)
    (hc : c ≡ (1 + N) ^ m * ρ ^ N [MOD N ^ 2]) (hr : r ≡ ρ [MOD N]) :
    (1 + N) ^ m * r ^ N ≡ c [MOD N ^ 2] :=
  ((pow_N_modEq_of_modEq N r ρ hN hr).mul_left _).trans hc.symm
