-- property: C02, C01
-- assumes: the numerator handed to polynomial.lagrange is the product of the identifier scalars (getScalarsAndNumerator: summarised, not proved)
-- assumes: identifier scalars are pairwise distinct and non-zero (enforced by round.NewSession; non-zero proved, distinctness replayed)
-- assumes: s_add / s_mul / s_inv in the contracts are the field operations of the scalar field (A-LIB-EC)
-- Lagrange coefficients and reconstruction. The contract of polynomial.lagrange pins the VALUE the real code computes:
--   l_j = numerator * ( x_j * prod_{i in D, i != j} (x_i - x_j) )^-1        (the product over the whole interpolation domain D)
-- and every caller hands it numerator = prod_{i in D} x_i (getScalarsAndNumerator). The theorems below say that these are
-- the Lagrange basis polynomials of the domain evaluated at 0 (codeCoeff_eq_basis_eval_zero) and that, for a polynomial
-- of degree t and ANY t+1 shareholders with pairwise distinct non-zero identifier scalars, the shares weighted with these
-- coefficients give back f(0) (reconstruct), also in the exponent (reconstruct_in_exponent: the group key from the
-- public shares X_j = f(x_j)*G, which is what config.PublicPoint is proved to compute: sum over j of lagr(D, x_j) * X_j).
-- Non-zero identifier scalars are what round.NewSession is proved to enforce (C20); distinctness too.
-- Checked by the Lean 4 kernel.
import Mathlib.LinearAlgebra.Lagrange
import Mathlib.Tactic

open Polynomial Finset

variable {F : Type*} [Field F] {ι : Type*} [DecidableEq ι]

/-- The coefficient `polynomial.lagrange` computes (its contract): numerator / (x_j * ∏_{i ≠ j} (x_i - x_j)) with the
numerator ∏_i x_i that `getScalarsAndNumerator` hands it. -/
noncomputable def codeCoeff (s : Finset ι) (v : ι → F) (j : ι) : F :=
  (∏ i ∈ s, v i) * (v j * ∏ i ∈ s.erase j, (v i - v j))⁻¹

theorem codeCoeff_eq_basis_eval_zero (s : Finset ι) (v : ι → F) (j : ι) (hj : j ∈ s) (hnz : v j ≠ 0) :
    codeCoeff s v j = (Lagrange.basis s v j).eval 0 := by
  unfold codeCoeff Lagrange.basis
  rw [eval_prod, ← Finset.mul_prod_erase s v hj, mul_inv, ← mul_assoc, mul_comm (v j) _, mul_assoc _ (v j),
    mul_inv_cancel₀ hnz, mul_one, ← Finset.prod_inv_distrib, ← Finset.prod_mul_distrib]
  apply Finset.prod_congr rfl
  intro i _
  simp only [Lagrange.basisDivisor, eval_mul, eval_C, eval_sub, eval_X]
  rw [zero_sub, ← neg_sub (v i) (v j), inv_neg, neg_mul_neg, mul_comm]

/-- Reconstruction (C02): for a polynomial of degree < #s (degree t, any t+1 shareholders) with pairwise distinct,
non-zero evaluation points, the shares f(x_j) weighted with the coefficients the code computes give back f(0) - the
same value for EVERY such set s. -/
theorem reconstruct (f : F[X]) (s : Finset ι) (v : ι → F) (hvs : Set.InjOn v s)
    (hdeg : f.degree < s.card) (hnz : ∀ j ∈ s, v j ≠ 0) :
    ∑ j ∈ s, f.eval (v j) * codeCoeff s v j = f.eval 0 := by
  have h := Lagrange.eq_interpolate hvs hdeg
  conv_rhs => rw [h]
  rw [Lagrange.interpolate_apply, eval_finsetSum]
  apply Finset.sum_congr rfl
  intro j hj
  rw [eval_mul, eval_C, codeCoeff_eq_basis_eval_zero s v j hj (hnz j hj)]

/-- The same in the exponent (public keys): weights applied to the points f(x_j)•G of any t+1 shareholders give f(0)•G,
since the map a ↦ a • G is additive. -/
theorem reconstruct_in_exponent {G : Type*} [AddCommGroup G] [Module F G] (g : G) (f : F[X]) (s : Finset ι) (v : ι → F)
    (hvs : Set.InjOn v s) (hdeg : f.degree < s.card) (hnz : ∀ j ∈ s, v j ≠ 0) :
    ∑ j ∈ s, codeCoeff s v j • (f.eval (v j) • g) = f.eval 0 • g := by
  rw [← reconstruct f s v hvs hdeg hnz, Finset.sum_smul]
  apply Finset.sum_congr rfl
  intro j _
  rw [smul_smul, mul_comm]
