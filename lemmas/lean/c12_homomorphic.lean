-- property: C12
-- assumes: ciphertexts and N+1 are units modulo N^2 (ValidateCiphertexts accepts exactly the units); modexp is the textbook power with inverse for negative exponents (A-NT)
-- Paillier ciphertext algebra. The contracts give the VALUES of the ciphertexts the real code computes:
--   EncWithNonce(m, ρ)  =  (N+1)^m * ρ^N          (mod N²)
--   ct.Add(ct2)         =  ct * ct2               (mod N²)
--   ct.Mul(k)           =  ct^k                   (mod N², signed exponent)
-- In the unit group of Z/N²Z (valid ciphertexts are units: ValidateCiphertexts) these are products and integer powers
-- in a commutative group, and the homomorphic laws the property states are the two identities below, for all
-- plaintexts a b, scalars k (negative ones included) and nonces:
--   Enc(a; ρ₁) ⊕ Enc(b; ρ₂) = Enc(a + b; ρ₁ρ₂)        k ⊙ Enc(a; ρ) = Enc(k·a; ρ^k)
import Mathlib.Algebra.Group.Basic
import Mathlib.Algebra.Ring.Int.Defs

theorem paillier_add {G : Type*} [CommGroup G] (g ρ₁ ρ₂ : G) (a b : ℤ) (N : ℕ) :
    (g ^ a * ρ₁ ^ N) * (g ^ b * ρ₂ ^ N) = g ^ (a + b) * (ρ₁ * ρ₂) ^ N := by
  rw [zpow_add, mul_pow]
  exact mul_mul_mul_comm _ _ _ _

theorem paillier_mul {G : Type*} [CommGroup G] (g ρ : G) (a k : ℤ) (N : ℕ) :
    (g ^ a * ρ ^ N) ^ k = g ^ (k * a) * (ρ ^ k) ^ N := by
  rw [mul_zpow, ← zpow_mul, mul_comm a k]
  congr 1
  rw [← zpow_natCast, ← zpow_natCast, ← zpow_mul, ← zpow_mul, mul_comm]

-- MtA share construction (internal/mta.newMta): D = Enc(-β; s) ⊕ (a ⊙ B). With B = Enc(b; ρ) the contract's value of D,
-- pmul(Enc(-β; s), B^a, N²), is the ciphertext of a·b - β: the receiver decrypts α = a·b - β, the sender keeps β, and
-- α + β = a·b over the integers (as long as a·b - β stays in the plaintext range, which the sampled size of β ensures).
theorem mta_share {G : Type*} [CommGroup G] (g ρ s : G) (a b β : ℤ) (N : ℕ) :
    (g ^ (-β) * s ^ N) * (g ^ b * ρ ^ N) ^ a = g ^ (a * b - β) * (s * ρ ^ a) ^ N := by
  rw [paillier_mul, paillier_add, neg_add_eq_sub]

theorem mta_shares_add_up (a b β : ℤ) : (a * b - β) + β = a * b := sub_add_cancel _ _
