-- property: C08
-- assumes: the received evaluations are evaluations of the dealt polynomials at the receiver's identifier (what the Feldman check of the acceptance gate verifies in the exponent)
-- assumes: every dealt polynomial has degree at most t (degree gate) and the identifier scalars are pairwise distinct and non-zero
-- Refresh preserves the key. Composition lemma over contracts proved on the real code:
--   CMP keygen round 3 / FROST keygen round 2 (refresh): a dealt polynomial is accepted only with ZERO constant term
--   CMP keygen round 4 / FROST keygen round 3: new share = previous share + sum of the received evaluations (a new object;
--     the previous share is untouched), new public share of every party = previous public share + sum of the dealt
--     polynomials' public evaluations at that party
--   polynomial.lagrange: the coefficient's closed formula (codeCoeff below; see c02_lagrange)
-- Claim (refresh_preserves_key, refresh_preserves_public_key): the refreshed shares of ANY t+1 parties recombine to the
-- OLD secret, the refreshed public shares to the OLD public key. Checked by the Lean 4 kernel.
import Mathlib.LinearAlgebra.Lagrange
import Mathlib.Tactic

open Polynomial Finset

variable {F : Type*} [Field F] {ι : Type*} [DecidableEq ι]

/-- The coefficient `polynomial.lagrange` computes (its contract): numerator / (x_j * ∏_{i ≠ j} (x_i - x_j)) with the
numerator ∏_i x_i that `getScalarsAndNumerator` hands it. -/
noncomputable def codeCoeff (s : Finset ι) (v : ι → F) (j : ι) : F :=
  (∏ i ∈ s, v i) * (v j * ∏ i ∈ s.erase j, (v i - v j))⁻¹

theorem codeCoeff_eq_basis_eval_zero (s : Finset ι) (v : ι → F) (j : ι) (hj : j ∈ s) (hnz : v j ≠ 0) :
    codeCoeff s v j = (Lagrange.basis s v j).eval 0 := by
  unfold codeCoeff Lagrange.basis
  rw [eval_prod, ← Finset.mul_prod_erase s v hj, mul_inv, ← mul_assoc, mul_comm (v j) _, mul_assoc _ (v j),
    mul_inv_cancel₀ hnz, mul_one, ← Finset.prod_inv_distrib, ← Finset.prod_mul_distrib]
  apply Finset.prod_congr rfl
  intro i _
  simp only [Lagrange.basisDivisor, eval_mul, eval_C, eval_sub, eval_X]
  rw [zero_sub, ← neg_sub (v i) (v j), inv_neg, neg_mul_neg, mul_comm]

/-- Reconstruction (C02): for a polynomial of degree < #s (degree t, any t+1 shareholders) with pairwise distinct,
non-zero evaluation points, the shares f(x_j) weighted with the coefficients the code computes give back f(0) - the
same value for EVERY such set s. -/
theorem reconstruct (f : F[X]) (s : Finset ι) (v : ι → F) (hvs : Set.InjOn v s)
    (hdeg : f.degree < s.card) (hnz : ∀ j ∈ s, v j ≠ 0) :
    ∑ j ∈ s, f.eval (v j) * codeCoeff s v j = f.eval 0 := by
  have h := Lagrange.eq_interpolate hvs hdeg
  conv_rhs => rw [h]
  rw [Lagrange.interpolate_apply, eval_finsetSum]
  apply Finset.sum_congr rfl
  intro j hj
  rw [eval_mul, eval_C, codeCoeff_eq_basis_eval_zero s v j hj (hnz j hj)]

/-- The same in the exponent (public keys): weights applied to the points f(x_j)•G of any t+1 shareholders give f(0)•G,
since the map a ↦ a • G is additive. -/
theorem reconstruct_in_exponent {G : Type*} [AddCommGroup G] [Module F G] (g : G) (f : F[X]) (s : Finset ι) (v : ι → F)
    (hvs : Set.InjOn v s) (hdeg : f.degree < s.card) (hnz : ∀ j ∈ s, v j ≠ 0) :
    ∑ j ∈ s, codeCoeff s v j • (f.eval (v j) • g) = f.eval 0 • g := by
  rw [← reconstruct f s v hvs hdeg hnz, Finset.sum_smul]
  apply Finset.sum_congr rfl
  intro j _
  rw [smul_smul, mul_comm]

/-- Refresh preserves the key (C08). Every party k deals a polynomial g k with ZERO constant term (the round-3 gate of CMP
refresh and the FROST refresh gate are proved to refuse anything else) of degree at most t; party j's new share is its
old share f(x_j) plus the evaluations it received (round 4: new share = previous share + sum of the received shares, a
NEW object, the previous one untouched). Recombining the new shares of ANY t+1 parties gives the old secret f(0). -/
theorem refresh_preserves_key {κ : Type*} (K : Finset κ) (f : F[X]) (g : κ → F[X]) (s : Finset ι) (v : ι → F)
    (hvs : Set.InjOn v s) (hnz : ∀ j ∈ s, v j ≠ 0)
    (hf : f.degree < s.card) (hg : ∀ k ∈ K, (g k).degree < s.card) (hg0 : ∀ k ∈ K, (g k).eval 0 = 0) :
    ∑ j ∈ s, (f.eval (v j) + ∑ k ∈ K, (g k).eval (v j)) * codeCoeff s v j = f.eval 0 := by
  have hdeg : (f + ∑ k ∈ K, g k).degree < s.card := by
    refine lt_of_le_of_lt (degree_add_le _ _) (max_lt hf ?_)
    refine lt_of_le_of_lt (degree_sum_le _ _) ?_
    rw [Finset.sup_lt_iff]
    · exact hg
    · exact lt_of_le_of_lt bot_le hf
  have h := reconstruct (f + ∑ k ∈ K, g k) s v hvs hdeg hnz
  simp only [eval_add, eval_finsetSum] at h
  rw [h, Finset.sum_eq_zero hg0, add_zero]

/-- The same for the public key: the new public shares recombine to the old public key. -/
theorem refresh_preserves_public_key {G : Type*} [AddCommGroup G] [Module F G] (b : G) {κ : Type*} (K : Finset κ)
    (f : F[X]) (g : κ → F[X]) (s : Finset ι) (v : ι → F)
    (hvs : Set.InjOn v s) (hnz : ∀ j ∈ s, v j ≠ 0)
    (hf : f.degree < s.card) (hg : ∀ k ∈ K, (g k).degree < s.card) (hg0 : ∀ k ∈ K, (g k).eval 0 = 0) :
    ∑ j ∈ s, codeCoeff s v j • ((f.eval (v j) + ∑ k ∈ K, (g k).eval (v j)) • b) = f.eval 0 • b := by
  rw [← refresh_preserves_key K f g s v hvs hnz hf hg hg0, Finset.sum_smul]
  apply Finset.sum_congr rfl
  intro j _
  rw [smul_smul, mul_comm]
