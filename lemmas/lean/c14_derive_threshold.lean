-- property: C14
-- assumes: all parties derive with the same tweak (bip32.DeriveScalar is a function of public data: public key, chain key, index)
-- assumes: the shares are evaluations of one polynomial of degree t at pairwise distinct non-zero identifier scalars (key generation)
-- Threshold key derivation. Composition lemma over contracts proved on the real code:
--   cmp/config.(*Config).Derive, frost/keygen.(*Config).Derive / (*TaprootConfig).Derive: the child is a NEW configuration,
--     its share is share + adjust, every party's public share is X_j + adjust*G, the parent is untouched
--   polynomial.lagrange: the coefficient's closed formula (codeCoeff below; see c02_lagrange)
-- Claim (derived_shares_recombine, derived_public_shares_recombine): the derived shares of ANY t+1 parties recombine to
-- the derived secret f(0) + adjust, the derived public shares to X + adjust*G - the derived material is a sharing of the
-- derived key (what bip32.DeriveScalar's tweak is applied to). Checked by the Lean 4 kernel.
import Mathlib.LinearAlgebra.Lagrange
import Mathlib.Tactic

open Polynomial Finset

variable {F : Type*} [Field F] {ι : Type*} [DecidableEq ι]

/-- The coefficient `polynomial.lagrange` computes (its contract): numerator / (x_j * ∏_{i ≠ j} (x_i - x_j)) with the
numerator ∏_i x_i that `getScalarsAndNumerator` hands it. -/
noncomputable def codeCoeff (s : Finset ι) (v : ι → F) (j : ι) : F :=
  (∏ i ∈ s, v i) * (v j * ∏ i ∈ s.erase j, (v i - v j))⁻¹

theorem codeCoeff_eq_basis_eval_zero (s : Finset ι) (v : ι → F) (j : ι) (hj : j ∈ s) (hnz : v j ≠ 0) :
    codeCoeff s v j = (Lagrange.basis s v j).eval 0 := by
  unfold codeCoeff Lagrange.basis
  rw [eval_prod, ← Finset.mul_prod_erase s v hj, mul_inv, ← mul_assoc, mul_comm (v j) _, mul_assoc _ (v j),
    mul_inv_cancel₀ hnz, mul_one, ← Finset.prod_inv_distrib, ← Finset.prod_mul_distrib]
  apply Finset.prod_congr rfl
  intro i _
  simp only [Lagrange.basisDivisor, eval_mul, eval_C, eval_sub, eval_X]
  rw [zero_sub, ← neg_sub (v i) (v j), inv_neg, neg_mul_neg, mul_comm]

/-- Reconstruction (C02): for a polynomial of degree < #s (degree t, any t+1 shareholders) with pairwise distinct,
non-zero evaluation points, the shares f(x_j) weighted with the coefficients the code computes give back f(0) - the
same value for EVERY such set s. -/
theorem reconstruct (f : F[X]) (s : Finset ι) (v : ι → F) (hvs : Set.InjOn v s)
    (hdeg : f.degree < s.card) (hnz : ∀ j ∈ s, v j ≠ 0) :
    ∑ j ∈ s, f.eval (v j) * codeCoeff s v j = f.eval 0 := by
  have h := Lagrange.eq_interpolate hvs hdeg
  conv_rhs => rw [h]
  rw [Lagrange.interpolate_apply, eval_finsetSum]
  apply Finset.sum_congr rfl
  intro j hj
  rw [eval_mul, eval_C, codeCoeff_eq_basis_eval_zero s v j hj (hnz j hj)]

/-- The same in the exponent (public keys): weights applied to the points f(x_j)•G of any t+1 shareholders give f(0)•G,
since the map a ↦ a • G is additive. -/
theorem reconstruct_in_exponent {G : Type*} [AddCommGroup G] [Module F G] (g : G) (f : F[X]) (s : Finset ι) (v : ι → F)
    (hvs : Set.InjOn v s) (hdeg : f.degree < s.card) (hnz : ∀ j ∈ s, v j ≠ 0) :
    ∑ j ∈ s, codeCoeff s v j • (f.eval (v j) • g) = f.eval 0 • g := by
  rw [← reconstruct f s v hvs hdeg hnz, Finset.sum_smul]
  apply Finset.sum_congr rfl
  intro j _
  rw [smul_smul, mul_comm]

/-- Threshold derivation (C14). `Config.Derive` / `DeriveChild` of CMP and FROST add the SAME tweak `a` to every party's
share (a new configuration; the parent untouched) and `a • G` to every public share and to the group key. The derived
shares of ANY t+1 parties recombine to the derived secret f(0) + a: the derived material is a sharing of the derived key. -/
theorem derived_shares_recombine (f : F[X]) (a : F) (s : Finset ι) (v : ι → F) (hvs : Set.InjOn v s)
    (hnz : ∀ j ∈ s, v j ≠ 0) (hf : f.degree < s.card) (hs : s.Nonempty) :
    ∑ j ∈ s, (f.eval (v j) + a) * codeCoeff s v j = f.eval 0 + a := by
  have hdeg : (f + C a).degree < s.card := by
    refine lt_of_le_of_lt (degree_add_le _ _) (max_lt hf ?_)
    refine lt_of_le_of_lt degree_C_le ?_
    exact_mod_cast Finset.card_pos.mpr hs
  have h := reconstruct (f + C a) s v hvs hdeg hnz
  simpa only [eval_add, eval_C] using h

/-- The same for the public shares: X_j + a • G recombine to X + a • G. -/
theorem derived_public_shares_recombine {G : Type*} [AddCommGroup G] [Module F G] (b : G) (f : F[X]) (a : F)
    (s : Finset ι) (v : ι → F) (hvs : Set.InjOn v s) (hnz : ∀ j ∈ s, v j ≠ 0) (hf : f.degree < s.card)
    (hs : s.Nonempty) :
    ∑ j ∈ s, codeCoeff s v j • (f.eval (v j) • b + a • b) = f.eval 0 • b + a • b := by
  rw [← add_smul, ← derived_shares_recombine f a s v hvs hnz hf hs, Finset.sum_smul]
  apply Finset.sum_congr rfl
  intro j _
  rw [← add_smul, smul_smul, mul_comm]
