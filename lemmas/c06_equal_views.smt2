; property: C06
; expect: unsat
; Composition lemma over the handler contracts (DESIGN.md A.3): two honest handlers A and B of one session,
; k a broadcast round followed by round k+1.
;   P1 (receivedAll, at each handler): bh_X = Hview(view_X)   -- the recorded hash is the hash of X's view of round k
;   P2-send (finalize assert "h.out <- msg"): every round-(k+1) message A emits carries bv = bh_A
;   P2-check (checkBroadcastHash post + finalize assert before Finalize): B passes round k+1 only if every stored
;        round-(k+1) message m has bytes_eq(bh_B, m.bv); B stored A's message (receivedAll needs one from everyone)
;   A-HASH: Hview is injective; bytes_eq is equality of contents.
; Claim: if B passes round k+1 then view_A = view_B.
(set-logic ALL)
(declare-sort View 0)
(declare-sort Bytes 0)
(declare-fun Hview (View) Bytes)
(declare-const viewA View)
(declare-const viewB View)
(declare-const bhA Bytes)
(declare-const bhB Bytes)
(declare-const msgA_bv Bytes)          ; BroadcastVerification of A's round k+1 message as stored by B
(declare-const passedB Bool)
(assert (= bhA (Hview viewA)))          ; P1 at A
(assert (= bhB (Hview viewB)))          ; P1 at B
(assert (= msgA_bv bhA))                ; P2-send at A
(assert (=> passedB (= bhB msgA_bv)))   ; P2-check at B (bytes_eq = content equality)
(assert (forall ((v1 View) (v2 View)) (=> (= (Hview v1) (Hview v2)) (= v1 v2)))) ; A-HASH
(assert passedB)
(assert (not (= viewA viewB)))
(check-sat)
