; property: C11
; expect: unsat
; Composition lemma over the contract of FROST sign round1.Finalize: the nonce stream state is
;     S = kdigest(keyed(kdf(ctx, enc(share))), wcat(wcat(wcat(wempty, sessionhash), msg), rnd))
; and (D, E) = (scu(S)*G, scu(adv(S))*G).  Under the idealisation A-HASH (the keyed hash, the KDF, the byte-string
; sequence constructor and the encodings are injective; scu and *G are injective on distinct stream states),
; two contexts that differ in the share, the session hash or the message -- with the SAME random bytes rnd --
; publish different first commitments.
(set-logic ALL)
(declare-sort B 0)  ; byte strings / abstract values
(declare-fun kdigest (B B) B)
(declare-fun keyed (B) B)
(declare-fun kdf (B B) B)
(declare-fun wcat (B B) B)
(declare-const wempty B)
(declare-fun commit (B) B)      ; S |-> scu(S)*G
(declare-const ctx B)
(declare-const share1 B) (declare-const share2 B)
(declare-const sess1 B) (declare-const sess2 B)
(declare-const msg1 B) (declare-const msg2 B)
(declare-const rnd B)
; A-HASH: injectivity
(assert (forall ((k1 B) (d1 B) (k2 B) (d2 B)) (=> (= (kdigest k1 d1) (kdigest k2 d2)) (and (= k1 k2) (= d1 d2)))))
(assert (forall ((x B) (y B)) (=> (= (keyed x) (keyed y)) (= x y))))
(assert (forall ((c B) (x B) (y B)) (=> (= (kdf c x) (kdf c y)) (= x y))))
(assert (forall ((a B) (b B) (c B) (d B)) (=> (= (wcat a b) (wcat c d)) (and (= a c) (= b d)))))
(assert (forall ((x B) (y B)) (=> (= (commit x) (commit y)) (= x y))))
(define-fun S ((share B) (sess B) (msg B)) B (kdigest (keyed (kdf ctx share)) (wcat (wcat (wcat wempty sess) msg) rnd)))
(assert (or (not (= share1 share2)) (not (= sess1 sess2)) (not (= msg1 msg2))))
(assert (= (commit (S share1 sess1 msg1)) (commit (S share2 sess2 msg2))))
(check-sat)
