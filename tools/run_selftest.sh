#!/bin/sh
# runs every mutant of /verif/selftest/mutants against the properties it is expected to violate;
# prints CAUGHT/MISSED per (mutant, property). Exit 1 if any is missed.
# usage: run_selftest.sh [mutant-name]      (GOVC_SELFTEST_JOBS mutants at a time, default 4)
# Start it on a committed state of /repo only: uncommitted contract files are copied into the scratch worktrees.
cd /verif
one() {
  n="$1"
  props=$(cat selftest/mutants/$n.props | tr ',' ' ')
  W=/root/scratch/st_$n
  rm -rf "$W"; git -C /repo worktree prune
  git -C /repo worktree add -q "$W" HEAD || { echo "ERROR  $n (no worktree)"; return; }
  (cd /repo && git status --short | awk '{print $2}' | grep '_verif.go$' | while read f; do mkdir -p "$W/$(dirname $f)"; cp "/repo/$f" "$W/$f"; done) || true
  if ! git -C "$W" apply "/verif/selftest/mutants/$n.patch" 2>/dev/null; then echo "STALE  $n (patch no longer applies)"; git -C /repo worktree remove --force "$W"; return; fi
  for prop in $props; do
    out=$(GOVC_REPO="$W" GOVC_HOME=/verif GOVC_NOEVIDENCE=1 GOVC_OUT="/root/scratch/out_$n" /verif/bin/govc check "$prop" 2>&1)
    if echo "$out" | grep -q "^VIOLATION property=$prop"; then echo "CAUGHT $n $prop ($(echo "$out" | grep -c "^VIOLATION") obligations, $(echo "$out" | grep "^VIOLATION" | grep -vc "no-failing-input-found") replayed)"; else echo "MISSED $n $prop"; fi
  done
  git -C /repo worktree remove --force "$W"
  rm -rf "/root/scratch/out_$n"
}
if [ "$1" = "--one" ]; then one "$2"; exit 0; fi
J=${GOVC_SELFTEST_JOBS:-4}
R=/root/scratch/selftest_run.$$
ls selftest/mutants/*.patch | xargs -n1 basename | sed 's/\.patch$//' | { if [ -n "$1" ]; then grep -x "$1"; else cat; fi; } | xargs -P "$J" -I{} sh /verif/tools/run_selftest.sh --one {} > "$R" 2>&1
sort "$R"
rc=0
if grep -q "^MISSED\|^ERROR\|^STALE" "$R"; then rc=1; fi
rm -f "$R"
exit $rc
