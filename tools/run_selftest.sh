#!/bin/sh
# runs every mutant of /verif/selftest/mutants against the properties it is expected to violate;
# prints CAUGHT/MISSED per (mutant, property). Exit 1 if any is missed.
cd /verif
miss=0
for p in selftest/mutants/*.patch; do
  n=$(basename $p .patch)
  [ -n "$1" ] && [ "$1" != "$n" ] && continue
  props=$(cat selftest/mutants/$n.props | tr ',' ' ')
  W=/root/scratch/st_$$
  git -C /repo worktree add -q "$W" HEAD
  (cd /repo && git status --short | awk '{print $2}' | grep '_verif.go$' | while read f; do mkdir -p "$W/$(dirname $f)"; cp "/repo/$f" "$W/$f"; done) || true
  if ! git -C "$W" apply "/verif/$p" 2>/dev/null; then echo "STALE  $n (patch no longer applies)"; git -C /repo worktree remove --force "$W"; continue; fi
  for prop in $props; do
    out=$(GOVC_REPO="$W" GOVC_HOME=/verif GOVC_NOEVIDENCE=1 /verif/bin/govc check "$prop" 2>&1)
    if echo "$out" | grep -q "^VIOLATION property=$prop"; then echo "CAUGHT $n $prop ($(echo "$out" | grep -c "^VIOLATION") obligations, $(echo "$out" | grep "^VIOLATION" | grep -vc "no-failing-input-found") replayed)"; else echo "MISSED $n $prop"; miss=1; fi
  done
  git -C /repo worktree remove --force "$W"
done
exit $miss
