#!/bin/sh
# usage: mk_mutant.sh <name> <props,comma> <file> <python-replace-old> <python-replace-new>
# creates /verif/selftest/mutants/<name>.patch (+ .props) from a textual replacement in a scratch worktree of /repo HEAD
set -e
NAME="$1"; PROPS="$2"; FILE="$3"; OLD="$4"; NEW="$5"
W=/root/scratch/mk_$$
git -C /repo worktree add -q "$W" HEAD
python3 - "$W/$FILE" "$OLD" "$NEW" <<'PY'
import sys
p,old,new=sys.argv[1:4]
s=open(p).read()
assert s.count(old)>=1, "pattern not found"
s=s.replace(old,new,1)
open(p,'w').write(s)
PY
(cd "$W" && export GOFLAGS=-mod=mod GOPROXY=off GOSUMDB=off GOTOOLCHAIN=local && go build ./... ) || { echo "MUTANT DOES NOT COMPILE"; git -C /repo worktree remove --force "$W"; exit 1; }
git -C "$W" diff > /verif/selftest/mutants/$NAME.patch
echo "$PROPS" > /verif/selftest/mutants/$NAME.props
git -C /repo worktree remove --force "$W"
echo "created $NAME"
