#!/bin/sh
# re-runs every seeded (sub-agent) change of /verif/seeded/<id>/patch.diff against the checks recorded as catching it
# in meta.json; prints CAUGHT/MISSED per (seed, property). Exit 1 if a recorded catch is lost.
cd /verif
miss=0
for d in seeded/C*; do
  id=$(basename $d)
  [ -n "$1" ] && [ "$1" != "$id" ] && continue
  props=$(python3 -c "
import json,sys
m=json.load(open('$d/meta.json'))
print(' '.join(k for k,v in m.get('checks_run',{}).items() if v.get('caught')))")
  W=/root/scratch/sd_$$
  git -C /repo worktree add -q "$W" HEAD
  if ! git -C "$W" apply "/verif/$d/patch.diff" 2>/dev/null; then echo "STALE  $id (patch no longer applies)"; git -C /repo worktree remove --force "$W"; miss=1; continue; fi
  for prop in $props; do
    out=$(GOVC_REPO="$W" GOVC_HOME=/verif GOVC_NOEVIDENCE=1 /verif/bin/govc check "$prop" 2>&1)
    if echo "$out" | grep -q "^VIOLATION property=$prop"; then echo "CAUGHT seeded/$id by $prop ($(echo "$out" | grep -c '^VIOLATION') obligations)"; else echo "MISSED seeded/$id by $prop"; miss=1; fi
  done
  git -C /repo worktree remove --force "$W"
done
exit $miss
