#!/bin/sh
# re-runs every seeded (sub-agent) change of /verif/seeded/<id>/patch.diff against the checks recorded as catching it
# in meta.json; prints CAUGHT/MISSED per (seed, property). Exit 1 if a recorded catch is lost.
# usage: run_seeded.sh [id]      (GOVC_SELFTEST_JOBS seeds at a time, default 4)
cd /verif
one() {
  id="$1"; d=seeded/$id
  props=$(python3 -c "
import json,sys
m=json.load(open('$d/meta.json'))
print(' '.join(k for k,v in m.get('checks_run',{}).items() if v.get('caught')))")
  W=/root/scratch/sd_$id
  rm -rf "$W"; git -C /repo worktree prune
  git -C /repo worktree add -q "$W" HEAD || { echo "ERROR  $id (no worktree)"; return; }
  if ! git -C "$W" apply "/verif/$d/patch.diff" 2>/dev/null; then echo "STALE  $id (patch no longer applies)"; git -C /repo worktree remove --force "$W"; return; fi
  for prop in $props; do
    out=$(GOVC_REPO="$W" GOVC_HOME=/verif GOVC_NOEVIDENCE=1 GOVC_OUT="/root/scratch/out_sd_$id" /verif/bin/govc check "$prop" 2>&1)
    if echo "$out" | grep -q "^VIOLATION property=$prop"; then echo "CAUGHT seeded/$id by $prop ($(echo "$out" | grep -c '^VIOLATION') obligations, $(echo "$out" | grep "^VIOLATION" | grep -vc "no-failing-input-found") replayed)"; else echo "MISSED seeded/$id by $prop"; fi
  done
  git -C /repo worktree remove --force "$W"
  rm -rf "/root/scratch/out_sd_$id"
}
if [ "$1" = "--one" ]; then one "$2"; exit 0; fi
J=${GOVC_SELFTEST_JOBS:-4}
R=/root/scratch/seeded_run.$$
ls -d seeded/C* | xargs -n1 basename | { if [ -n "$1" ]; then grep -x "$1"; else cat; fi; } | xargs -P "$J" -I{} sh /verif/tools/run_seeded.sh --one {} > "$R" 2>&1
sort "$R"
rc=0
if grep -q "^MISSED\|^ERROR\|^STALE" "$R"; then rc=1; fi
rm -f "$R"
exit $rc
