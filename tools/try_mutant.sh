#!/bin/sh
# usage: try_mutant.sh <patch.diff> <property>...   -- applies the patch to a scratch worktree of /repo HEAD
# (uncommitted contract edits in /repo are copied over) and runs the given property checks against it.
set -e
P="$1"; shift
W=/root/scratch/mt_$$
git -C /repo worktree add -q "$W" HEAD
# bring over uncommitted contract files
(cd /repo && git status --short | awk '{print $2}' | grep '_verif.go$' | while read f; do mkdir -p "$W/$(dirname $f)"; cp "/repo/$f" "$W/$f"; done) || true
git -C "$W" apply "$P"
for prop in "$@"; do
  GOVC_REPO="$W" GOVC_HOME=/verif GOVC_NOEVIDENCE=1 /verif/bin/govc check "$prop" 2>&1 | grep -E "VIOLATION|KNOWN-FINDING|ENGINE|\[quick\]" | sed -E 's/replay=[^ ]+ //' | cut -c1-260 | tail -8
done
git -C /repo worktree remove --force "$W"
