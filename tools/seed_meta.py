#!/usr/bin/env python3
"""writes /verif/seeded/<id>/meta.json: runs the registered checks against the seeded change and records which obligations fail"""
import json, subprocess, sys, os, re
ID, props, needs = sys.argv[1], sys.argv[2].split(','), sys.argv[3]
d = '/verif/seeded/%s' % ID
res = {}
for p in props:
    out = subprocess.run(['/verif/tools/try_mutant.sh', d + '/patch.diff', p], capture_output=True, text=True).stdout
    obs = re.findall(r'VIOLATION property=%s obligation="((?:[^"\\]|\\.)*)"' % p, out)
    res[p] = {'caught': len(obs) > 0, 'failed_obligations': obs[:6]}
notes = open(d + '/notes.md').read() if os.path.exists(d + '/notes.md') else ''
meta = {
  'property_broken': ID.split('_')[0],
  'origin': 'independent sub-agent given only the property text and a scratch worktree',
  'needs_to_manifest': needs,
  'confirmed': {
     'demo_without_change': open(d + '/demo_without_patch.txt').read().strip().splitlines()[-1:],
     'demo_with_change': [l for l in open(d + '/demo_with_patch.txt').read().splitlines() if 'FAIL' in l][:2],
     'existing_suite_with_change': 'all packages ok' if open(d + '/suite_with_patch.txt').read().strip() == '' else open(d + '/suite_with_patch.txt').read(),
     'how': 'tools/confirm_mutant.sh: fresh worktree of /repo HEAD; go test of the demo package without/with patch.diff; go build ./... and go test ./... with the patch (demo file removed)'},
  'checks_run': res,
}
json.dump(meta, open(d + '/meta.json', 'w'), indent=1)
print(ID, {p: r['caught'] for p, r in res.items()})
