#!/usr/bin/env python3
"""manifest.py sync                       -- refresh hooks.source_commits from /repo's git log ("verif hook" commits)
   manifest.py claim <id> <level text> --- <level note>   -- move <id> from not_applicable to checks
   manifest.py na <id> <reason>           -- set the not_applicable reason of an unclaimed property
   manifest.py note <id> <level text> --- <level note>    -- rewrite the claim text of a registered property"""
import json, subprocess, sys
P = '/verif/MANIFEST.json'
m = json.load(open(P))

def sync():
    out = subprocess.run(['git', '-C', '/repo', 'log', '--format=%h %s'], capture_output=True, text=True).stdout
    m['hooks']['source_commits'] = [l.split()[0] for l in reversed(out.splitlines()) if l.split(' ', 1)[1].startswith('verif hook')]
    m['engines'][0]['serves_properties'] = sorted(c['property_id'] for c in m['checks'])

def entry(pid, text, note):
    return {
        'property_id': pid,
        'quick_cmd': './bin/govc check %s --tier quick' % pid,
        'thorough_cmd': './bin/govc check %s --tier thorough' % pid,
        'evidence_file': '/verif/evidence/%s.json' % pid,
        'replay_cmd_template': './bin/govc replay {path}',
        'engine': 'govc',
        'level_claimed': {'category': 'proof', 'text': text, 'design_ref': 'DESIGN.md section 5 ' + pid},
        'level_note': note,
        'technique': 'contract-based deductive verification: VCs generated from go/ssa of the real functions, discharged by z3/cvc5',
    }

cmd = sys.argv[1]
if cmd in ('claim', 'note'):
    pid = sys.argv[2]
    rest = ' '.join(sys.argv[3:])
    text, note = [s.strip() for s in rest.split('---', 1)]
    m['checks'] = [c for c in m['checks'] if c['property_id'] != pid] + [entry(pid, text, note)]
    m['checks'].sort(key=lambda c: c['property_id'])
    m['not_applicable'] = [n for n in m.get('not_applicable', []) if n['property_id'] != pid]
elif cmd == 'na':
    pid, reason = sys.argv[2], ' '.join(sys.argv[3:])
    m['checks'] = [c for c in m['checks'] if c['property_id'] != pid]
    m['not_applicable'] = [n for n in m.get('not_applicable', []) if n['property_id'] != pid] + [{'property_id': pid, 'reason': reason}]
    m['not_applicable'].sort(key=lambda c: c['property_id'])
sync()
json.dump(m, open(P, 'w'), indent=1)
r = subprocess.run(['python3-vt', '-c', "import json,jsonschema;jsonschema.validate(json.load(open('/verif/MANIFEST.json')), json.load(open('/root/.vp/MANIFEST.schema.json')))"], capture_output=True, text=True)
if r.returncode != 0:
    print(r.stderr[-2000:]); sys.exit(1)
print('manifest ok:', len(m['checks']), 'checks,', len(m.get('not_applicable', [])), 'not applicable,', len(m['hooks']['source_commits']), 'hook commits')
