#!/usr/bin/env python3
"""ob_isolate.py <dump.smt2> <k>  -- writes <dump>.ob<k>.smt2 with the k-th (1-based) check of the incremental script
alone (all assertions outside push/pop blocks up to it, then that block)."""
import sys
lines=open(sys.argv[1]).read().split('\n')
want=int(sys.argv[2])
out=[];depth=0;blk=[];k=0
for l in lines:
    if l.startswith('(push'):
        depth=1;blk=[l];continue
    if depth:
        blk.append(l)
        if l.startswith('(pop'):
            depth=0;k+=1
            if k==want:
                p=sys.argv[1]+'.ob%d.smt2'%k
                open(p,'w').write('\n'.join(out+blk[:-1])+'\n');print(p);sys.exit(0)
        continue
    out.append(l)
