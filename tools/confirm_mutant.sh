#!/bin/sh
# usage: confirm_mutant.sh <id> [srcdir]  -- confirms a sub-agent's mutant in a fresh scratch worktree and, on success,
# stores it under /verif/seeded/<id>/ (patch.diff, demo test, meta.json is written by hand afterwards)
# checks: patch applies; go build + go vet-less full test suite pass; demo fails with the patch; demo passes without.
ID="$1"; SRC="${2:-/tmp/mut/$ID/_out}"
export GOFLAGS=-mod=mod GOPROXY=off GOSUMDB=off GOTOOLCHAIN=local
W=/root/scratch/cm_$ID
rm -rf "$W"; git -C /repo worktree prune; git -C /repo worktree add -q "$W" HEAD || exit 2
PKG=$(cat "$SRC/demo_pkg.txt" | tr -d ' \n')
DEMO=$(ls "$SRC"/*_test.go | head -1)
cd "$W"
cp "$DEMO" "$W/$PKG/zz_demo_test.go"
echo "== demo WITHOUT patch (expect pass)"
go test -vet=off -count=1 -timeout 20m -run . "./$PKG/" 2>&1 | tail -3 > "$W/_without.txt"; tail -2 "$W/_without.txt"
git apply "$SRC/patch.diff" || { echo "PATCH DOES NOT APPLY"; exit 2; }
echo "== demo WITH patch (expect fail)"
go test -vet=off -count=1 -timeout 20m -run . "./$PKG/" 2>&1 | tail -12 > "$W/_with.txt"; tail -4 "$W/_with.txt"
rm "$W/$PKG/zz_demo_test.go"
echo "== full suite WITH patch (expect pass)"
go build ./... && go test -vet=off -count=1 -timeout 25m ./... 2>&1 | grep -v "^ok\|no test files" | tail -5 > "$W/_suite.txt"; cat "$W/_suite.txt"; echo "(suite done, empty output above = all ok)"
mkdir -p /verif/seeded/$ID
cp "$SRC/patch.diff" /verif/seeded/$ID/patch.diff
cp "$DEMO" /verif/seeded/$ID/zz_demo_test.go
cp "$SRC/demo_pkg.txt" /verif/seeded/$ID/demo_pkg.txt
[ -f "$SRC/notes.md" ] && cp "$SRC/notes.md" /verif/seeded/$ID/notes.md
cp "$W/_with.txt" /verif/seeded/$ID/demo_with_patch.txt; cp "$W/_without.txt" /verif/seeded/$ID/demo_without_patch.txt; cp "$W/_suite.txt" /verif/seeded/$ID/suite_with_patch.txt
cd /; git -C /repo worktree remove --force "$W"
