#!/usr/bin/env python3
"""Generate the nil-safety (C05) contract skeletons for pkg/zk/* from the Public struct definitions.
The output files are comment-only Go files behind the build tag verif; gates (C03/C10) are appended by hand
sections kept between the markers in each file."""
import re, os, sys
REPO = sys.argv[1] if len(sys.argv) > 1 else '/repo'
ZK = ['affg','affp','dec','elog','enc','encelg','fac','log','logstar','mod','mul','mulstar','nth','prm']
def field_req(name, typ):
    t = typ.strip()
    x = 'public.' + name
    if t == '*paillier.PublicKey': return 'pkok(%s) && pkvals(%s) && pkbig(%s)' % (x, x, x)
    if t == '*pedersen.Parameters': return 'pedok(%s)' % x
    if t == '*elgamal.Ciphertext': return '%s != nil && %s.L != nil && %s.M != nil' % (x, x, x)
    # ciphertexts taken from a peer's message may be absent: the verifiers refuse them (ValidateCiphertexts in
    # IsValid, and hashing an absent ciphertext fails), so no precondition is needed -- and none may be assumed
    if t == '*paillier.Ciphertext': return 'true'
    return '%s != nil' % x
for n in ZK:
    src = open('%s/pkg/zk/%s/%s.go' % (REPO, n, n)).read()
    pkgname = re.search(r'^package (\w+)', src, re.M).group(1)
    m = re.search(r'type Public struct \{(.*?)\n\}', src, re.S)
    reqs = []
    for line in m.group(1).split('\n'):
        line = line.split('//')[0].strip()
        if not line: continue
        parts = line.rsplit(None, 1)
        if len(parts) != 2: continue
        names, typ = parts
        for nm in names.split(','):
            if n == 'logstar' and nm.strip() == 'G':
                continue  # optional: nil means the group's base point (handled by the code)
            reqs.append(field_req(nm.strip(), typ))
    pub = ' && '.join(reqs)
    def fields(tname):
        mm = re.search(r'type %s struct \{(.*?)\n\}' % tname, src, re.S)
        res = []
        if not mm: return res
        for line in mm.group(1).split('\n'):
            line = line.split('//')[0].strip()
            if not line: continue
            parts = line.rsplit(None, 1)
            if len(parts) == 1:
                res.append((parts[0].lstrip('*'), parts[0]))  # embedded
                continue
            names, typ = parts
            for nm in names.split(','):
                res.append((nm.strip(), typ.strip()))
        return res
    has_empty = re.search(r'^func Empty\(', src, re.M) is not None
    shaped = []
    if has_empty:
        for nm, ty in fields('Proof'):
            if ty == '*Commitment': shaped.append('p.Commitment != nil')
            elif ty.startswith('curve.'): shaped.append('p.%s != nil' % nm)
        for nm, ty in fields('Commitment'):
            if ty.startswith('curve.') and nm != 'group': shaped.append('p.%s != nil' % nm)
    out = ['//go:build verif', '', '// Contracts for govc (comment-only file; see /verif/DESIGN.md section 3).',
           '// Generated skeleton (tools/gen_zk_contracts.py): nil-safety of the verifier side for arbitrary decoded proofs.',
           'package %s' % pkgname, '']
    if has_empty:
        out += ['// Shape that the message templates (Empty) give a proof before decoding and that the CBOR decoder keeps:',
                '// unexported fields, the embedded commitment pointer and interface-typed fields stay non-nil (A-CBOR).',
                '//@ pred shaped(p *Proof) := ' + ' && '.join(shaped), '',
                '//@ func Empty', '//@   nopanic[%s]' % ('C10' if n in ('dec','mul','mulstar') else 'C05'), '//@   requires group != nil', '//@   modifies nothing', '//@   allocates',
                '//@   ensures result != nil && shaped(result)', '']
    for fm in re.finditer(r'^func (\((\w+) \*?(\w+)\) )?(\w+)\((.*?)\)', src, re.M):
        recvname, recvtype, fname, params = fm.group(2), fm.group(3), fm.group(4), fm.group(5)
        if fname not in ('IsValid', 'Verify', 'challenge'): continue
        key = ('(*%s).%s' % (recvtype, fname)) if recvtype else fname
        req = []
        pnames = []
        for p in params.split(','):
            p = p.strip()
            if not p: continue
            pnames.append(p.split()[0])
        for p in params.split(','):
            p = p.strip()
            if not p: continue
            toks = p.split()
            nm = toks[0]
            ty = toks[1] if len(toks) > 1 else ''
            if nm == 'hash': req.append('hash != nil && hash.h != nil')
            elif nm == 'group': req.append('group != nil')
            elif nm == 'public' and ty == 'Public': req.append(pub)
            elif nm == 'commitment' and ty.startswith('*'): req.append('commitment != nil')
        out.append('//@ func %s' % key)
        out.append('//@   use bits')
        out.append('//@   nopanic[%s]' % ('C10' if n in ('dec','mul','mulstar') else 'C05'))
        if fname in ('IsValid', 'challenge') or (recvtype and recvtype != 'Proof'):
            out.append('//@   inline')
        if fname == 'Verify' and recvtype == 'Proof':
            out.append('//@   modifies hstate(hash), wlog(hash.h)')
        if has_empty and recvtype == 'Proof':
            req.append('(p != nil ==> shaped(p))')
        cov = []
        if fname == 'challenge':
            # Fiat-Shamir coverage (C10): every field of the public statement and of the commitment is absorbed
            has_pub = any(pp.strip().startswith('public ') for pp in params.split(','))
            cparam = [pp.strip() for pp in params.split(',') if pp.strip().startswith('commitment ')]
            if has_pub:
                for nm, ty in fields('Public'):
                    cov.append('public.%s' % nm)
            if cparam:
                for nm, ty in fields('Commitment'):
                    cov.append('commitment.%s' % nm)
        if req:
            out.append('//@   requires ' + ' && '.join(r for r in req if r))
        if cov:
            out.append('//@   use absorb')
            for c in cov:
                out.append('//@   ensures[C10] result1 == nil ==> absorbed(hstate(hash), habs(iface(%s)))' % c)
        out.append('')
    path = '%s/pkg/zk/%s/zz_contracts_verif.go' % (REPO, n)
    open(path, 'w').write('\n'.join(out))
    print('wrote', path)
