#!/bin/sh
# Build govc offline from /verif/govc with the default go and cached x/tools v0.29.0
set -e
export GOFLAGS=-mod=mod GOPROXY=off GOSUMDB=off GOTOOLCHAIN=local
cd "$(dirname "$0")/govc"
mkdir -p ../bin
go build -o ../bin/govc .
echo "govc built"
