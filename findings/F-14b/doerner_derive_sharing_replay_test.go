package doerner

// Replay for finding F-14b (property C14): Doerner key shares are additive (public = a*G + b*G), and both
// ConfigReceiver.Derive and ConfigSender.Derive add the tweak to their share, so the derived shares sum to the
// parent key + 2*tweak while the derived public key is parent + tweak*G: the derived material is not a sharing of
// the child key and signing with it fails.

import (
	"testing"

	"github.com/taurusgroup/multi-party-sig/pkg/party"
)

func TestReplayDoernerDerivedSharesMatchChildKey(t *testing.T) {
	ids := party.IDSlice{"a", "b"}
	sender, receiver, err := runKeygen(ids)
	if err != nil {
		t.Fatal(err)
	}
	// sanity: the parent shares are a sharing of the parent key
	sum := testGroup.NewScalar().Set(sender.SecretShare).Add(receiver.SecretShare)
	if !sum.ActOnBase().Equal(sender.Public) {
		t.Fatal("parent shares do not match the parent key")
	}
	s1, err := sender.DeriveBIP32(5)
	if err != nil {
		t.Fatal(err)
	}
	r1, err := receiver.DeriveBIP32(5)
	if err != nil {
		t.Fatal(err)
	}
	if !s1.Public.Equal(r1.Public) {
		t.Fatal("parties disagree on the child key")
	}
	sum1 := testGroup.NewScalar().Set(s1.SecretShare).Add(r1.SecretShare)
	if !sum1.ActOnBase().Equal(s1.Public) {
		t.Errorf("derived shares are not a sharing of the derived public key")
	}
	sig, err := runSign(ids, s1, r1)
	if err != nil {
		t.Fatalf("signing with derived material failed: %v", err)
	}
	if !sig.Verify(s1.Public, testHash) {
		t.Fatalf("signature of derived material does not verify under the child key")
	}
}
