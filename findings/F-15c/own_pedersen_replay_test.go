package config

// Replay for finding F-15c (property C15): a stored configuration whose record for the restoring party itself lacks
// (or carries invalid) Pedersen parameters S, T is restored without error; the restored object breaks the validity
// rule for Pedersen parameters and panics as soon as a peer's proof is verified against it.
//
// Run (from /repo):  go test -overlay <ov.json> -vet=off -run TestReplayOwnPedersen ./protocols/cmp/config
// where the overlay maps protocols/cmp/config/zz_replay_f15c_test.go to this file.

import (
	"testing"

	"github.com/cronokirby/saferith"
	"github.com/fxamacker/cbor/v2"
	"github.com/taurusgroup/multi-party-sig/internal/types"
	"github.com/taurusgroup/multi-party-sig/pkg/math/curve"
	"github.com/taurusgroup/multi-party-sig/pkg/math/sample"
	"github.com/taurusgroup/multi-party-sig/pkg/paillier"
	"github.com/taurusgroup/multi-party-sig/pkg/party"
	"github.com/taurusgroup/multi-party-sig/pkg/pedersen"
	"github.com/taurusgroup/multi-party-sig/pkg/pool"
	"crypto/rand"
)

func f15cEncode(t *testing.T, ownS, ownT *saferith.Nat) []byte {
	group := curve.Secp256k1{}
	pl := pool.NewPool(0)
	defer pl.TearDown()
	ids := []party.ID{"a", "b"}
	var ps []cbor.RawMessage
	var P, Q *saferith.Nat
	for _, id := range ids {
		sk := paillier.NewSecretKey(pl)
		s, tt, _ := sample.Pedersen(rand.Reader, sk.Phi(), sk.N())
		pm := &publicMarshal{
			ID:      id,
			ECDSA:   sample.Scalar(rand.Reader, group).ActOnBase(),
			ElGamal: sample.Scalar(rand.Reader, group).ActOnBase(),
			N:       sk.N(),
			S:       s,
			T:       tt,
		}
		if id == "a" {
			P, Q = sk.P(), sk.Q()
			pm.S, pm.T = ownS, ownT
		}
		data, err := cbor.Marshal(pm)
		if err != nil {
			t.Fatal(err)
		}
		ps = append(ps, data)
	}
	rid, _ := types.NewRID(rand.Reader)
	data, err := cbor.Marshal(&configMarshal{
		ID: "a", Threshold: 1,
		ECDSA: sample.Scalar(rand.Reader, group), ElGamal: sample.Scalar(rand.Reader, group),
		P: P, Q: Q, RID: rid, ChainKey: rid, Public: ps,
	})
	if err != nil {
		t.Fatal(err)
	}
	return data
}

func TestReplayOwnPedersen(t *testing.T) {
	for name, st := range map[string][2]*saferith.Nat{
		"missing": {nil, nil},
		"zero":    {new(saferith.Nat).SetUint64(0), new(saferith.Nat).SetUint64(0)},
		"equal":   {new(saferith.Nat).SetUint64(4), new(saferith.Nat).SetUint64(4)},
	} {
		c := EmptyConfig(curve.Secp256k1{})
		err := c.UnmarshalBinary(f15cEncode(t, st[0], st[1]))
		if err != nil {
			continue // refused: the property holds for this input
		}
		own := c.Public[c.ID].Pedersen
		if verr := pedersen.ValidateParameters(own.N(), own.S(), own.T()); verr != nil {
			t.Errorf("%s: restored without error, but the party's own Pedersen parameters are invalid: %v", name, verr)
		}
	}
}
