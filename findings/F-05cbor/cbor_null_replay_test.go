package protocol_test

// Replay for finding F-05cbor (property C05): a round message that encodes CBOR null for an
// interface-typed field which the content template pre-shapes (here the Schnorr commitment point of
// FROST keygen's round-2 broadcast) makes cbor.Unmarshal panic inside MultiHandler.Accept
// ("reflect: reflect.Value.Set using unaddressable value"); the handler does not recover.

import (
	"testing"

	"github.com/fxamacker/cbor/v2"
	"github.com/taurusgroup/multi-party-sig/pkg/math/curve"
	"github.com/taurusgroup/multi-party-sig/pkg/party"
	"github.com/taurusgroup/multi-party-sig/pkg/protocol"
	"github.com/taurusgroup/multi-party-sig/protocols/frost"
)

func TestReplayCBORNullInterface(t *testing.T) {
	ids := party.IDSlice{"a", "b"}
	ha, err := protocol.NewMultiHandler(frost.Keygen(curve.Secp256k1{}, "a", ids, 1), nil)
	if err != nil {
		t.Fatal(err)
	}
	hb, err := protocol.NewMultiHandler(frost.Keygen(curve.Secp256k1{}, "b", ids, 1), nil)
	if err != nil {
		t.Fatal(err)
	}
	msg := <-hb.Listen() // b's round-2 broadcast
	var m map[string]interface{}
	if err := cbor.Unmarshal(msg.Data, &m); err != nil {
		t.Fatal(err)
	}
	sigma, ok := m["Sigma_i"].(map[interface{}]interface{})
	if !ok {
		t.Fatalf("unexpected content shape: %T %v", m["Sigma_i"], m)
	}
	c := sigma["C"].(map[interface{}]interface{})
	c["C"] = nil // CBOR null for the pre-shaped curve.Point
	msg.Data, err = cbor.Marshal(m)
	if err != nil {
		t.Fatal(err)
	}
	if !ha.CanAccept(msg) {
		t.Fatal("message not acceptable")
	}
	defer func() {
		if r := recover(); r != nil {
			t.Fatalf("Accept panicked on a malformed message: %v", r)
		}
	}()
	ha.Accept(msg)
	if _, err := ha.Result(); err == nil || err.Error() == "protocol: not finished" {
		t.Logf("session continues: %v", err)
	}
}
