package polynomial_test

import (
	"testing"

	"github.com/fxamacker/cbor/v2"
	"github.com/taurusgroup/multi-party-sig/pkg/math/curve"
	"github.com/taurusgroup/multi-party-sig/pkg/math/polynomial"
	"github.com/taurusgroup/multi-party-sig/pkg/party"
)

func TestProbeExponentNull(t *testing.T) {
	// size 1, then CBOR {"IsConstant": false, "Coefficients": [null]}
	body, _ := cbor.Marshal(map[string]interface{}{"IsConstant": false, "Coefficients": []interface{}{nil}})
	data := append([]byte{0, 0, 0, 1}, body...)
	e := polynomial.EmptyExponent(curve.Secp256k1{})
	func() {
		defer func() {
			if r := recover(); r != nil {
				t.Errorf("Exponent.UnmarshalBinary panicked: %v", r)
			}
		}()
		err := e.UnmarshalBinary(data)
		t.Logf("exponent err=%v", err)
	}()
	// PointMap with a null point
	pm, _ := cbor.Marshal(map[string]interface{}{"a": nil})
	m := party.EmptyPointMap(curve.Secp256k1{})
	func() {
		defer func() {
			if r := recover(); r != nil {
				t.Errorf("PointMap.UnmarshalBinary panicked: %v", r)
			}
		}()
		err := m.UnmarshalBinary(pm)
		t.Logf("pointmap err=%v points=%v", err, m.Points)
	}()
}
