package protocol_test

// Replay for finding F-17b (property C17): CanAccept read currentRound without holding the
// handler mutex while Accept/finalize writes it. Run with -race:
//   go test -race -overlay <ov.json> -vet=off -run TestReplayCanAcceptRace ./pkg/protocol/

import (
	"sync"
	"testing"

	"github.com/taurusgroup/multi-party-sig/pkg/math/curve"
	"github.com/taurusgroup/multi-party-sig/pkg/party"
	"github.com/taurusgroup/multi-party-sig/pkg/protocol"
	"github.com/taurusgroup/multi-party-sig/protocols/frost"
)

func TestReplayCanAcceptRace(t *testing.T) {
	ids := party.IDSlice{"a", "b"}
	hs := map[party.ID]*protocol.MultiHandler{}
	for _, id := range ids {
		h, err := protocol.NewMultiHandler(frost.Keygen(curve.Secp256k1{}, id, ids, 1), nil)
		if err != nil {
			t.Fatal(err)
		}
		hs[id] = h
	}
	var wg sync.WaitGroup
	stop := make(chan struct{})
	wg.Add(1)
	go func() { // a second goroutine polling CanAccept, as the README suggests before Accept
		defer wg.Done()
		probe := &protocol.Message{From: "b", RoundNumber: 2}
		for {
			select {
			case <-stop:
				return
			default:
				hs["a"].CanAccept(probe)
			}
		}
	}()
	// pump messages between the two handlers until both finish
	for done := 0; done < 2; {
		done = 0
		for _, id := range ids {
			select {
			case m, ok := <-hs[id].Listen():
				if !ok {
					done++
					continue
				}
				for _, o := range ids {
					if o != id && hs[o].CanAccept(m) {
						hs[o].Accept(m)
					}
				}
			default:
			}
		}
	}
	close(stop)
	wg.Wait()
}
