package protocol_test

// Replay for finding F-17a/F-17b (property C17): MultiHandler.Stop / TwoPartyHandler.Stop.
// Before the fix: Stop() on a running session is a no-op (Result keeps saying "not finished",
// Listen() channel stays open); on a finished session it closes the channel a second time (panic).
// Run with: go test -overlay <ov.json> -vet=off -run TestReplayStop ./pkg/protocol/

import (
	"testing"

	"github.com/taurusgroup/multi-party-sig/pkg/math/curve"
	"github.com/taurusgroup/multi-party-sig/pkg/party"
	"github.com/taurusgroup/multi-party-sig/pkg/protocol"
	"github.com/taurusgroup/multi-party-sig/protocols/frost"
)

func TestReplayStopRunning(t *testing.T) {
	ids := party.IDSlice{"a", "b", "c"}
	h, err := protocol.NewMultiHandler(frost.Keygen(curve.Secp256k1{}, "a", ids, 1), nil)
	if err != nil {
		t.Fatal(err)
	}
	h.Stop()
	if _, err := h.Result(); err == nil || err.Error() == "protocol: not finished" {
		t.Fatalf("Stop() on a running session did not end it: Result() = %v", err)
	}
	// channel must be closed now: drain
	for range h.Listen() {
	}
	// second Stop must be harmless
	h.Stop()
}

func TestReplayStopFinished(t *testing.T) {
	ids := party.IDSlice{"a", "b", "c"}
	h, err := protocol.NewMultiHandler(frost.Keygen(curve.Secp256k1{}, "a", ids, 1), nil)
	if err != nil {
		t.Fatal(err)
	}
	// finish the session with an abort notice from a peer
	h.Accept(&protocol.Message{SSID: ssidOf(t, ids), From: "b", Protocol: "frost/keygen-threshold", RoundNumber: 0, Data: []byte("x")})
	if _, err := h.Result(); err == nil || err.Error() == "protocol: not finished" {
		t.Skip("could not finish the session this way")
	}
	h.Stop() // panics with "close of closed channel" before the fix
}

func ssidOf(t *testing.T, ids party.IDSlice) []byte {
	h, err := protocol.NewMultiHandler(frost.Keygen(curve.Secp256k1{}, "b", ids, 1), nil)
	if err != nil {
		t.Fatal(err)
	}
	for m := range h.Listen() {
		return m.SSID
	}
	return nil
}
