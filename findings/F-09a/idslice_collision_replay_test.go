package round_test

// Replay for finding F-09a (properties C09, C19): party.IDSlice.WriteTo writes the identifiers back to back without
// a length prefix, so two DIFFERENT party lists with the same concatenation ({"a","bc"} and {"ab","c"}) are
// absorbed identically into the transcript: two sessions over different party sets get the same SSID.

import (
	"bytes"
	"testing"

	"github.com/taurusgroup/multi-party-sig/internal/round"
	"github.com/taurusgroup/multi-party-sig/pkg/math/curve"
	"github.com/taurusgroup/multi-party-sig/pkg/party"
)

func TestReplayIDSliceCollision(t *testing.T) {
	mk := func(ids ...party.ID) []byte {
		info := round.Info{ProtocolID: "p", FinalRoundNumber: 2, SelfID: ids[0], PartyIDs: ids, Threshold: 1, Group: curve.Secp256k1{}}
		h, err := round.NewSession(info, []byte("sid"), nil)
		if err != nil {
			t.Fatal(err)
		}
		return h.SSID()
	}
	if bytes.Equal(mk("a", "bc"), mk("ab", "c")) {
		t.Fatalf("sessions over the party sets {a, bc} and {ab, c} have the same SSID")
	}
}
