package cmp_test

// Replay for findings F-20a..d (property C20): starting a protocol with absent or invalid parameters must
// return an error from handler construction and must not panic.
//   a) nil key material: cmp.Sign, cmp.Refresh, frost.Refresh/RefreshTaproot/Sign/SignTaproot, doerner.Refresh*/Sign*
//   b) an incomplete presignature: cmp.PresignOnline with &ecdsa.PreSignature{}
//   c) FROST sign with a signer that holds no share, or with an empty message: a session was started
//   d) doerner keygen given only one of (secret share, public key)

import (
	"crypto/rand"
	"testing"

	"github.com/taurusgroup/multi-party-sig/internal/test"
	"github.com/taurusgroup/multi-party-sig/pkg/ecdsa"
	"github.com/taurusgroup/multi-party-sig/pkg/math/curve"
	"github.com/taurusgroup/multi-party-sig/pkg/party"
	"github.com/taurusgroup/multi-party-sig/pkg/protocol"
	"github.com/taurusgroup/multi-party-sig/protocols/cmp"
	"github.com/taurusgroup/multi-party-sig/protocols/doerner"
	"github.com/taurusgroup/multi-party-sig/protocols/frost"
)

func mustRefuse(t *testing.T, name string, mk func() protocol.StartFunc, twoParty bool) {
	t.Run(name, func(t *testing.T) {
		defer func() {
			if r := recover(); r != nil {
				t.Fatalf("panic instead of an error: %v", r)
			}
		}()
		start := mk()
		var err error
		if twoParty {
			_, err = protocol.NewTwoPartyHandler(start, []byte("sid"), true)
		} else {
			_, err = protocol.NewMultiHandler(start, []byte("sid"))
		}
		if err == nil {
			t.Fatalf("a session was started with invalid parameters")
		}
	})
}

func TestReplayStartInvalidParameters(t *testing.T) {
	ids := party.IDSlice{"a", "b", "c"}
	msg := []byte("0123456789abcdef0123456789abcdef")
	group := curve.Secp256k1{}

	// a) nil key material
	mustRefuse(t, "cmp.Sign/nil-config", func() protocol.StartFunc { return cmp.Sign(nil, ids, msg, nil) }, false)
	mustRefuse(t, "cmp.Refresh/nil-config", func() protocol.StartFunc { return cmp.Refresh(nil, nil) }, false)
	mustRefuse(t, "frost.Refresh/nil-config", func() protocol.StartFunc { return frost.Refresh(nil, ids) }, false)
	mustRefuse(t, "frost.RefreshTaproot/nil-config", func() protocol.StartFunc { return frost.RefreshTaproot(nil, ids) }, false)
	mustRefuse(t, "frost.Sign/nil-config", func() protocol.StartFunc { return frost.Sign(nil, ids, msg) }, false)
	mustRefuse(t, "frost.SignTaproot/nil-config", func() protocol.StartFunc { return frost.SignTaproot(nil, ids, msg) }, false)
	mustRefuse(t, "doerner.RefreshReceiver/nil-config", func() protocol.StartFunc { return doerner.RefreshReceiver(nil, "a", "b", nil) }, true)
	mustRefuse(t, "doerner.RefreshSender/nil-config", func() protocol.StartFunc { return doerner.RefreshSender(nil, "a", "b", nil) }, true)
	mustRefuse(t, "doerner.SignReceiver/nil-config", func() protocol.StartFunc { return doerner.SignReceiver(nil, "a", "b", msg, nil) }, true)
	mustRefuse(t, "doerner.SignSender/nil-config", func() protocol.StartFunc { return doerner.SignSender(nil, "a", "b", msg, nil) }, true)

	// b) incomplete presignature (a real configuration, so that only the presignature is at fault)
	configs, _ := test.GenerateConfig(group, 2, 1, rand.Reader, nil)
	var cfgA *cmp.Config
	for _, c := range configs {
		if cfgA == nil || c.ID < cfgA.ID {
			cfgA = c
		}
	}
	mustRefuse(t, "cmp.PresignOnline/empty-presignature", func() protocol.StartFunc {
		return cmp.PresignOnline(cfgA, &ecdsa.PreSignature{}, msg, nil)
	}, false)

	// c) FROST signing: foreign signer, empty message
	fc := &frost.Config{
		ID:                 "a",
		Threshold:          1,
		PrivateShare:       group.NewScalar(),
		PublicKey:          group.NewBasePoint(),
		VerificationShares: party.NewPointMap(map[party.ID]curve.Point{"a": group.NewBasePoint(), "b": group.NewBasePoint(), "c": group.NewBasePoint()}),
	}
	mustRefuse(t, "frost.Sign/foreign-signer", func() protocol.StartFunc { return frost.Sign(fc, party.IDSlice{"a", "b", "z"}, msg) }, false)
	mustRefuse(t, "frost.Sign/empty-message", func() protocol.StartFunc { return frost.Sign(fc, ids, nil) }, false)

	// d) doerner keygen with half of the key material (a refresh needs both)
	mustRefuse(t, "doerner.RefreshSender/no-secret-share", func() protocol.StartFunc {
		return doerner.RefreshSender(&doerner.ConfigSender{Public: group.NewBasePoint()}, "a", "b", nil)
	}, true)
}
