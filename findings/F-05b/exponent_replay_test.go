package polynomial_test

// Replay for finding F-05b (property C05/C15): Exponent.UnmarshalBinary on short or hostile input.
// Before the fix: a 3-byte input panics in binary.BigEndian.Uint32; a 4-byte size prefix of
// 0x7fffffff makes it allocate 2^31 interface values (32 GiB) before looking at the data.

import (
	"testing"

	"github.com/taurusgroup/multi-party-sig/pkg/math/curve"
	"github.com/taurusgroup/multi-party-sig/pkg/math/polynomial"
)

func TestReplayExponentShort(t *testing.T) {
	for _, data := range [][]byte{nil, {}, {1}, {1, 2, 3}} {
		func() {
			defer func() {
				if r := recover(); r != nil {
					t.Errorf("UnmarshalBinary(%v) panicked: %v", data, r)
				}
			}()
			e := polynomial.EmptyExponent(curve.Secp256k1{})
			if err := e.UnmarshalBinary(data); err == nil {
				t.Errorf("UnmarshalBinary(%v) returned no error", data)
			}
		}()
	}
}

func TestReplayExponentHugeSize(t *testing.T) {
	// size prefix 2^24 (256 MiB of interface values before the fix), followed by an empty CBOR map
	data := []byte{0x01, 0x00, 0x00, 0x00, 0xa0}
	e := polynomial.EmptyExponent(curve.Secp256k1{})
	allocs := testing.AllocsPerRun(1, func() { _ = e.UnmarshalBinary(data) })
	if allocs > 1000 {
		t.Errorf("UnmarshalBinary of a 5-byte input performed %v allocations (size prefix trusted)", allocs)
	}
}
