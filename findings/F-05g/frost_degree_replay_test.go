package keygen

// Replay for findings F-05g / F-02a (properties C05, C02, C03): FROST keygen accepted a commitment
// polynomial of the wrong degree. Before the fix a single cheater (b, using threshold+1) makes every
// honest party panic in round3.Finalize (polynomial.Sum fails -> panic(err)); an empty polynomial
// panics even earlier in Exponent.Constant(). After the fix the broadcast is rejected in round 2.

import (
	"testing"

	"github.com/taurusgroup/multi-party-sig/internal/round"
	"github.com/taurusgroup/multi-party-sig/pkg/math/curve"
	"github.com/taurusgroup/multi-party-sig/pkg/math/polynomial"
	"github.com/taurusgroup/multi-party-sig/pkg/party"
)

func start(t *testing.T, id party.ID, ids party.IDSlice, threshold int) *round1 {
	s, err := StartKeygenCommon(false, curve.Secp256k1{}, ids, threshold, id, nil, nil, nil)(nil)
	if err != nil {
		t.Fatal(err)
	}
	return s.(*round1)
}

func drain(ch chan *round.Message) []*round.Message {
	var out []*round.Message
	for {
		select {
		case m := <-ch:
			out = append(out, m)
		default:
			return out
		}
	}
}

func TestReplayWrongDegree(t *testing.T) {
	defer func() {
		if r := recover(); r != nil {
			t.Fatalf("an honest party panicked: %v", r)
		}
	}()
	ids := party.IDSlice{"a", "b", "c"}
	const thr = 1
	r1 := map[party.ID]*round1{}
	for _, id := range ids {
		r1[id] = start(t, id, ids, thr)
	}
	r1["b"].threshold = thr + 1 // the cheater commits to a polynomial of degree t+1

	out := map[party.ID]chan *round.Message{}
	r2 := map[party.ID]round.Session{}
	b2 := map[party.ID]*round.Message{}
	for _, id := range ids {
		out[id] = make(chan *round.Message, 10)
		n, err := r1[id].Finalize(out[id])
		if err != nil {
			t.Fatal(err)
		}
		r2[id] = n
		b2[id] = drain(out[id])[0]
	}
	rejected := false
	for _, to := range []party.ID{"a", "c"} {
		for _, from := range ids {
			if from == to {
				continue
			}
			err := r2[to].(round.BroadcastRound).StoreBroadcastMessage(round.Message{From: from, Broadcast: true, Content: b2[from].Content})
			if err != nil {
				if from != "b" {
					t.Fatalf("honest broadcast rejected: %v", err)
				}
				rejected = true
			}
		}
	}
	if rejected {
		return // fixed behaviour: the wrong-degree polynomial is refused in round 2
	}
	// unfixed behaviour: carry on to round 3 as the honest parties would
	r3 := map[party.ID]round.Session{}
	msgs := map[party.ID][]*round.Message{}
	for _, id := range ids {
		n, err := r2[id].Finalize(out[id])
		if err != nil {
			t.Fatal(err)
		}
		r3[id] = n
		msgs[id] = drain(out[id])
	}
	for _, to := range []party.ID{"a", "c"} {
		for _, from := range ids {
			if from == to {
				continue
			}
			for _, m := range msgs[from] {
				if m.Broadcast {
					if err := r3[to].(round.BroadcastRound).StoreBroadcastMessage(round.Message{From: from, Broadcast: true, Content: m.Content}); err != nil {
						t.Fatalf("round 3 broadcast: %v", err)
					}
				}
			}
			for _, m := range msgs[from] {
				if !m.Broadcast && m.To == to {
					rm := round.Message{From: from, To: to, Content: m.Content}
					if err := r3[to].VerifyMessage(rm); err != nil {
						t.Fatalf("verify: %v", err)
					}
					if err := r3[to].StoreMessage(rm); err != nil {
						t.Fatalf("store: %v", err)
					}
				}
			}
		}
		if _, err := r3[to].Finalize(out[to]); err != nil { // panics before the fix
			t.Fatalf("finalize: %v", err)
		}
	}
	t.Fatal("a polynomial of degree t+1 was accepted by the honest parties")
}

func TestReplayEmptyPolynomial(t *testing.T) {
	defer func() {
		if r := recover(); r != nil {
			t.Fatalf("StoreBroadcastMessage panicked: %v", r)
		}
	}()
	ids := party.IDSlice{"a", "b"}
	ra := start(t, "a", ids, 1)
	rb := start(t, "b", ids, 1)
	oa, ob := make(chan *round.Message, 10), make(chan *round.Message, 10)
	na, _ := ra.Finalize(oa)
	_, _ = rb.Finalize(ob)
	body := drain(ob)[0].Content.(*broadcast2)
	body.Phi_i = polynomial.EmptyExponent(curve.Secp256k1{}) // no coefficients at all
	if err := na.(round.BroadcastRound).StoreBroadcastMessage(round.Message{From: "b", Broadcast: true, Content: body}); err == nil {
		t.Fatal("empty polynomial accepted")
	}
}
