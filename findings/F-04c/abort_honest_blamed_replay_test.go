package presign

// Replay for finding F-04b (property C04): in the identifiable-abort round of CMP presign an HONEST party's abort
// message fails verification at another honest party. presign6 proves, under key DeltaProofs[j], the decryption of
// the ciphertext D[j][self] (sent by j, encrypted to self); abort1.StoreBroadcastMessage checks DeltaProofs[id]
// against DeltaCiphertext[from][id] (sent by `from`, encrypted to id) -- the indices are swapped, so the check
// fails for honest proofs and the handler blames the honest sender. (abort2 has the same swap for the chi proofs.)

import (
	"testing"

	"github.com/fxamacker/cbor/v2"
	"github.com/taurusgroup/multi-party-sig/internal/round"
	"github.com/taurusgroup/multi-party-sig/internal/test"
	"github.com/taurusgroup/multi-party-sig/pkg/party"
	"github.com/taurusgroup/multi-party-sig/pkg/pool"
)

func TestReplayAbortHonestPartyNotBlamed(t *testing.T) {
	pl := pool.NewPool(0)
	defer pl.TearDown()
	// party "a" cheats on its delta share, which sends everybody into the abort round after round 6
	rule := &TestRule{
		AfterFinalize: func(rNext round.Session) {
			if r, ok := rNext.(*presign4); ok {
				one := r.Group().NewScalar().SetNat(oneNat)
				r.DeltaShares[r.SelfID()] = r.Group().NewScalar().Set(r.DeltaShares[r.SelfID()]).Sub(one)
			}
		},
		BeforeSend: func(rNext round.Session, to party.ID, content round.Content) {
			if c, ok := content.(*broadcast4); ok {
				r := rNext.(*presign4)
				one := r.Group().NewScalar().SetNat(oneNat)
				c.DeltaShare = r.Group().NewScalar().Set(c.DeltaShare).Sub(one)
			}
		},
	}
	rounds := make([]round.Session, 0, N)
	for _, c := range configs {
		r, err := StartPresign(c, partyIDs, messageHash, pl)(nil)
		if err != nil {
			t.Fatal(err)
		}
		rounds = append(rounds, r)
	}
	for {
		if _, ok := rounds[0].(*presign6); ok {
			break
		}
		if err, done := test.Rounds(rounds, rule); err != nil || done {
			t.Fatalf("did not reach round 6: %v", err)
		}
	}
	// round 6 -> abort round, delivered by hand so that we can see WHOSE message is refused
	type sent struct {
		from party.ID
		data []byte
	}
	var msgs []sent
	next := map[party.ID]round.Session{}
	for _, r := range rounds {
		out := make(chan *round.Message, N+1)
		rn, err := r.Finalize(out)
		close(out)
		if err != nil {
			t.Fatal(err)
		}
		if _, ok := rn.(*abort1); !ok {
			t.Fatalf("expected the abort round, got %T", rn)
		}
		next[r.SelfID()] = rn
		for m := range out {
			b, err := cbor.Marshal(m.Content)
			if err != nil {
				t.Fatal(err)
			}
			msgs = append(msgs, sent{m.From, b})
		}
	}
	for _, m := range msgs {
		if m.from == "a" {
			continue // the cheater's own message is not the point here
		}
		for id, r := range next {
			if id == m.from || id == "a" {
				continue
			}
			ab := r.(*abort1)
			content := ab.BroadcastContent()
			if err := cbor.Unmarshal(m.data, content); err != nil {
				t.Fatal(err)
			}
			if err := ab.StoreBroadcastMessage(round.Message{From: m.from, Content: content, Broadcast: true}); err != nil {
				t.Errorf("honest %s refuses the abort message of honest %s (and the handler would blame %s): %v", id, m.from, m.from, err)
			}
		}
	}
	if t.Failed() {
		return
	}
	// deliver the cheater's (well-formed) abort message too, then every honest party must blame exactly "a"
	for _, m := range msgs {
		if m.from != "a" {
			continue
		}
		for id, r := range next {
			if id == "a" {
				continue
			}
			ab := r.(*abort1)
			content := ab.BroadcastContent()
			if err := cbor.Unmarshal(m.data, content); err != nil {
				t.Fatal(err)
			}
			if err := ab.StoreBroadcastMessage(round.Message{From: m.from, Content: content, Broadcast: true}); err != nil {
				t.Logf("%s refuses the cheater's abort message: %v (the handler blames a: fine)", id, err)
			}
		}
	}
	for id, r := range next {
		if id == "a" {
			continue
		}
		res, err := r.(*abort1).Finalize(nil)
		if err != nil {
			t.Fatal(err)
		}
		ab, ok := res.(*round.Abort)
		if !ok {
			t.Fatalf("expected an abort, got %T", res)
		}
		if len(ab.Culprits) != 1 || ab.Culprits[0] != "a" {
			t.Errorf("party %s blames %v, the cheater is a", id, ab.Culprits)
		}
	}
}
