package presign

// Replay for finding F-04c (properties C05, C04): abort1.StoreBroadcastMessage dereferenced the sender's abort
// message without checking it: a cheater that first provokes the abort (wrong delta share) and then broadcasts an
// abort message with a missing proof, a missing / foreign delta-proof entry or an oversized plaintext made every
// honest party panic (nil dereference, nil ciphertext, EncWithNonce range panic) instead of blaming the sender.

import (
	"testing"

	"github.com/cronokirby/saferith"
	"github.com/fxamacker/cbor/v2"
	"github.com/taurusgroup/multi-party-sig/internal/round"
	"github.com/taurusgroup/multi-party-sig/internal/test"
	"github.com/taurusgroup/multi-party-sig/pkg/party"
	"github.com/taurusgroup/multi-party-sig/pkg/pool"
)

func TestReplayAbortMalformedMessage(t *testing.T) {
	pl := pool.NewPool(0)
	defer pl.TearDown()
	rule := &TestRule{
		AfterFinalize: func(rNext round.Session) {
			if r, ok := rNext.(*presign4); ok {
				one := r.Group().NewScalar().SetNat(oneNat)
				r.DeltaShares[r.SelfID()] = r.Group().NewScalar().Set(r.DeltaShares[r.SelfID()]).Sub(one)
			}
		},
		BeforeSend: func(rNext round.Session, to party.ID, content round.Content) {
			if c, ok := content.(*broadcast4); ok {
				r := rNext.(*presign4)
				one := r.Group().NewScalar().SetNat(oneNat)
				c.DeltaShare = r.Group().NewScalar().Set(c.DeltaShare).Sub(one)
			}
		},
	}
	rounds := make([]round.Session, 0, N)
	for _, c := range configs {
		r, err := StartPresign(c, partyIDs, messageHash, pl)(nil)
		if err != nil {
			t.Fatal(err)
		}
		rounds = append(rounds, r)
	}
	for {
		if _, ok := rounds[0].(*presign6); ok {
			break
		}
		if err, done := test.Rounds(rounds, rule); err != nil || done {
			t.Fatalf("did not reach round 6: %v", err)
		}
	}
	var cheater *broadcastAbort1
	var victim *abort1
	for _, r := range rounds {
		out := make(chan *round.Message, N+1)
		rn, err := r.Finalize(out)
		close(out)
		if err != nil {
			t.Fatal(err)
		}
		for m := range out {
			if m.From == "a" {
				cheater = m.Content.(*broadcastAbort1)
			}
		}
		if r.SelfID() == "b" {
			victim = rn.(*abort1)
		}
	}
	if cheater == nil || victim == nil {
		t.Fatal("setup failed")
	}
	huge := new(saferith.Int).SetNat(new(saferith.Nat).Lsh(new(saferith.Nat).SetUint64(1), 2100, -1))
	variants := map[string]func(m *broadcastAbort1){
		"missing-k-proof":    func(m *broadcastAbort1) { m.KProof = nil },
		"missing-gamma":      func(m *broadcastAbort1) { m.GammaShare = nil },
		"null-delta-proof":   func(m *broadcastAbort1) { m.DeltaProofs["c"] = nil },
		"foreign-delta-id":   func(m *broadcastAbort1) { m.DeltaProofs["zz"] = m.DeltaProofs["c"]; delete(m.DeltaProofs, "c") },
		"oversized-plaintext": func(m *broadcastAbort1) { p := *m.DeltaProofs["c"]; p.Plaintext = huge; m.DeltaProofs["c"] = &p },
	}
	for name, mutate := range variants {
		t.Run(name, func(t *testing.T) {
			cp := *cheater
			cp.DeltaProofs = map[party.ID]*abortNth{}
			for k, v := range cheater.DeltaProofs {
				cp.DeltaProofs[k] = v
			}
			mutate(&cp)
			data, err := cbor.Marshal(&cp)
			if err != nil {
				t.Fatal(err)
			}
			content := victim.BroadcastContent()
			if err := cbor.Unmarshal(data, content); err != nil {
				return // refused by the decoder: fine
			}
			defer func() {
				if r := recover(); r != nil {
					t.Fatalf("honest party panicked on the cheater's abort message: %v", r)
				}
			}()
			if err := victim.StoreBroadcastMessage(round.Message{From: "a", Content: content, Broadcast: true}); err == nil {
				t.Fatalf("malformed abort message accepted")
			}
		})
	}
}
