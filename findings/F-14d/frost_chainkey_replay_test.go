package frost

// Replay for finding F-14d (property C14): FROST key generation computes the agreed chain key (XOR of the
// decommitted contributions) in round3.Finalize and then drops it: Config.ChainKey / TaprootConfig.ChainKey stay
// empty, so the parties hold no chain key and DeriveChild fails on freshly generated material.

import (
	"bytes"
	"sync"
	"testing"

	"github.com/taurusgroup/multi-party-sig/internal/test"
	"github.com/taurusgroup/multi-party-sig/pkg/math/curve"
	"github.com/taurusgroup/multi-party-sig/pkg/party"
	"github.com/taurusgroup/multi-party-sig/pkg/protocol"
)

func TestReplayFrostKeygenChainKey(t *testing.T) {
	ids := party.IDSlice{"a", "b", "c"}
	n := test.NewNetwork(ids)
	var mu sync.Mutex
	configs := map[party.ID]*Config{}
	tconfigs := map[party.ID]*TaprootConfig{}
	var wg sync.WaitGroup
	for _, id := range ids {
		wg.Add(1)
		go func(id party.ID) {
			defer wg.Done()
			h, err := protocol.NewMultiHandler(Keygen(curve.Secp256k1{}, id, ids, 1), nil)
			if err != nil {
				t.Error(err)
				return
			}
			test.HandlerLoop(id, h, n)
			r, err := h.Result()
			if err != nil {
				t.Error(err)
				return
			}
			h, err = protocol.NewMultiHandler(KeygenTaproot(id, ids, 1), nil)
			if err != nil {
				t.Error(err)
				return
			}
			test.HandlerLoop(id, h, n)
			rt, err := h.Result()
			if err != nil {
				t.Error(err)
				return
			}
			mu.Lock()
			configs[id] = r.(*Config)
			tconfigs[id] = rt.(*TaprootConfig)
			mu.Unlock()
		}(id)
	}
	wg.Wait()
	if t.Failed() {
		return
	}
	for _, id := range ids {
		if len(configs[id].ChainKey) != 32 || len(tconfigs[id].ChainKey) != 32 {
			t.Fatalf("party %s holds no chain key after key generation (%d / %d bytes)", id, len(configs[id].ChainKey), len(tconfigs[id].ChainKey))
		}
		if !bytes.Equal(configs[id].ChainKey, configs["a"].ChainKey) || !bytes.Equal(tconfigs[id].ChainKey, tconfigs["a"].ChainKey) {
			t.Fatalf("parties disagree on the chain key")
		}
		if _, err := configs[id].DeriveChild(0); err != nil {
			t.Fatalf("DeriveChild on generated material: %v", err)
		}
		if _, err := tconfigs[id].DeriveChild(0); err != nil {
			t.Fatalf("DeriveChild on generated taproot material: %v", err)
		}
	}
}
