package presign

// Replay for finding F-04a (properties C04, C05): offline presigning (no message) where one signer uses a shifted
// secret share from round 3 on. All of its individual proofs pass, the final check of round 7 fails for everybody and
// every party enters the identifiable-abort round abort2, which is round 8. The offline variant announced 7 as its
// final round number, so the handler had no queue for round 8: it considered round 8 complete at once and ran
// abort2.Finalize on the party's own entries only (nil point in the sum: panic inside Accept), instead of collecting
// the openings and naming the cheater.
//
// Run (from /repo): go test -overlay <ov.json> -vet=off -run TestReplayOfflineAbortNamesCheater ./protocols/cmp/presign
// where the overlay maps protocols/cmp/presign/zz_replay_f04a_test.go to this file.

import (
	"crypto/rand"
	"fmt"
	"testing"

	"github.com/cronokirby/saferith"
	"github.com/taurusgroup/multi-party-sig/internal/round"
	"github.com/taurusgroup/multi-party-sig/internal/test"
	"github.com/taurusgroup/multi-party-sig/pkg/math/curve"
	"github.com/taurusgroup/multi-party-sig/pkg/party"
	"github.com/taurusgroup/multi-party-sig/pkg/pool"
	"github.com/taurusgroup/multi-party-sig/pkg/protocol"
)

// a session wrapper that shifts the signer's share when round 3 is entered and otherwise delegates
type f04aP2P struct{ round.Session }
type f04aBC struct{ f04aP2P }

func (w f04aBC) StoreBroadcastMessage(m round.Message) error {
	return w.Session.(round.BroadcastRound).StoreBroadcastMessage(m)
}
func (w f04aBC) BroadcastContent() round.BroadcastContent {
	return w.Session.(round.BroadcastRound).BroadcastContent()
}
func f04aWrap(s round.Session) round.Session {
	if _, ok := s.(round.BroadcastRound); ok {
		return f04aBC{f04aP2P{s}}
	}
	return f04aP2P{s}
}
func (w f04aP2P) Finalize(out chan<- *round.Message) (round.Session, error) {
	next, err := w.Session.Finalize(out)
	if err != nil {
		return f04aWrap(next), err
	}
	switch n := next.(type) {
	case *round.Abort, *round.Output:
		return next, nil
	case *presign3:
		one := n.Group().NewScalar().SetNat(new(saferith.Nat).SetUint64(1))
		n.SecretECDSA = n.Group().NewScalar().Set(n.SecretECDSA).Add(one)
	}
	return f04aWrap(next), nil
}

func TestReplayOfflineAbortNamesCheater(t *testing.T) {
	group := curve.Secp256k1{}
	pl := pool.NewPool(0)
	defer pl.TearDown()
	configs, ids := test.GenerateConfig(group, 3, 2, rand.Reader, pl)
	cheater := ids[0]
	handlers := map[party.ID]*protocol.MultiHandler{}
	for _, id := range ids {
		start := StartPresign(configs[id], ids, nil, pl)
		if id == cheater {
			inner := start
			start = func(sessionID []byte) (round.Session, error) {
				s, err := inner(sessionID)
				if err != nil {
					return nil, err
				}
				return f04aWrap(s), nil
			}
		}
		h, err := protocol.NewMultiHandler(start, []byte("f04a"))
		if err != nil {
			t.Fatal(err)
		}
		handlers[id] = h
	}
	accept := func(id party.ID, m *protocol.Message) (panicked interface{}) {
		defer func() { panicked = recover() }()
		handlers[id].Accept(m)
		return nil
	}
	// deterministic delivery: drain every handler, deliver, repeat until nothing moves
	for moved := true; moved; {
		moved = false
		for _, from := range ids {
			for {
				var m *protocol.Message
				select {
				case m = <-handlers[from].Listen():
				default:
				}
				if m == nil {
					break
				}
				moved = true
				for _, to := range ids {
					if to == from || !m.IsFor(to) {
						continue
					}
					if p := accept(to, m); p != nil && to != cheater {
						t.Fatalf("honest party %s: Accept panicked on a round %d message from %s: %v", to, m.RoundNumber, m.From, p)
					}
				}
			}
		}
	}
	for _, id := range ids {
		if id == cheater {
			continue
		}
		res, err := handlers[id].Result()
		if err == nil {
			t.Fatalf("party %s: presignature %v although the shares do not add up", id, res)
		}
		perr, ok := err.(protocol.Error)
		if !ok {
			t.Fatalf("party %s: did not finish: %v", id, err)
		}
		if len(perr.Culprits) != 1 || perr.Culprits[0] != cheater {
			t.Fatalf("party %s: culprits %v, want [%s] (%v)", id, perr.Culprits, cheater, fmt.Sprint(err))
		}
	}
}
