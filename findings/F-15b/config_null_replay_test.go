package config_test

// Replay for finding F-15b (properties C15, C05): (*Config).UnmarshalBinary panics on two kinds of
// untrusted input instead of returning an error:
//   (a) the CBOR value null: the decoder sets the *configMarshal to nil and the next line dereferences it;
//   (b) a map whose "ECDSA" entry is CBOR null: cbor.Unmarshal panics on the pre-shaped interface value
//       ("reflect: reflect.Value.Set using unaddressable value").

import (
	"testing"

	"github.com/fxamacker/cbor/v2"
	"github.com/taurusgroup/multi-party-sig/pkg/math/curve"
	"github.com/taurusgroup/multi-party-sig/protocols/cmp/config"
)

func tryRestore(t *testing.T, name string, data []byte) {
	t.Run(name, func(t *testing.T) {
		defer func() {
			if r := recover(); r != nil {
				t.Fatalf("UnmarshalBinary panicked instead of returning an error: %v", r)
			}
		}()
		c := &config.Config{Group: curve.Secp256k1{}}
		if err := c.UnmarshalBinary(data); err == nil {
			t.Fatalf("malformed configuration accepted")
		}
	})
}

func TestReplayConfigRestoreMalformed(t *testing.T) {
	tryRestore(t, "cbor-null", []byte{0xf6})
	m := map[string]interface{}{"ID": "a", "Threshold": 1, "ECDSA": nil}
	data, err := cbor.Marshal(m)
	if err != nil {
		t.Fatal(err)
	}
	tryRestore(t, "null-scalar-field", data)
}

// (c) a well-formed configuration in which one party's public record is CBOR null, or has a null point.
func TestReplayConfigRestoreNullPublic(t *testing.T) {
	for name, pm := range map[string][]byte{"null-record": {0xf6}} {
		m := map[string]interface{}{"ID": "a", "Threshold": 1, "ECDSA": make([]byte, 32), "ElGamal": make([]byte, 32), "Public": [][]byte{pm}}
		m["ECDSA"].([]byte)[31] = 1
		m["ElGamal"].([]byte)[31] = 1
		data, err := cbor.Marshal(m)
		if err != nil {
			t.Fatal(err)
		}
		tryRestore(t, name, data)
	}
}
