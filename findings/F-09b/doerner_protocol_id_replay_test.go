package doerner_test

// Replay for finding F-09b (property C09): sessions of different protocols must carry different session tags.
// The Doerner signing sessions were created with the protocol identifier of key generation ("doerner/keygen"), so a
// signing session and a key-generation session between the same two parties with the same session identifier had
// the SAME SSID and protocol header: CanAccept of the one let messages of the other through.

import (
	"bytes"
	"crypto/rand"
	"testing"

	"github.com/taurusgroup/multi-party-sig/internal/ot"
	"github.com/taurusgroup/multi-party-sig/pkg/math/curve"
	"github.com/taurusgroup/multi-party-sig/pkg/math/sample"
	"github.com/taurusgroup/multi-party-sig/pkg/protocol"
	"github.com/taurusgroup/multi-party-sig/protocols/doerner"
	"github.com/taurusgroup/multi-party-sig/protocols/doerner/keygen"
)

func TestReplayDoernerSignSharesKeygenTag(t *testing.T) {
	group := curve.Secp256k1{}
	sid := []byte("same session identifier")
	hk, err := protocol.NewTwoPartyHandler(doerner.Keygen(group, true, "a", "b", nil), sid, true)
	if err != nil {
		t.Fatal(err)
	}
	share := sample.Scalar(rand.Reader, group)
	cfg := &keygen.ConfigReceiver{Setup: &ot.CorreOTReceiveSetup{}, SecretShare: share, Public: share.ActOnBase(), ChainKey: make([]byte, 32)}
	hs, err := protocol.NewTwoPartyHandler(doerner.SignReceiver(cfg, "a", "b", []byte("0123456789abcdef0123456789abcdef"), nil), sid, true)
	if err != nil {
		t.Fatal(err)
	}
	mk, ms := <-hk.Listen(), <-hs.Listen()
	if mk == nil || ms == nil {
		t.Fatal("no first message")
	}
	if bytes.Equal(mk.SSID, ms.SSID) && mk.Protocol == ms.Protocol {
		t.Fatalf("a key-generation session and a signing session have the same tag: protocol %q, SSID %x", ms.Protocol, ms.SSID[:8])
	}
}
