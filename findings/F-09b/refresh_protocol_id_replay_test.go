package frost_test

// Replay for finding F-09c (property C09): a refresh session and a key-generation session of FROST (and of the
// Doerner protocol) between the same parties, with the same session identifier, threshold and curve, had the SAME
// session tag (same protocol identifier, no auxiliary information): CanAccept of the one let the other's messages
// through, and delivering them aborted the session. CMP has always used distinct identifiers for the two.

import (
	"bytes"
	"crypto/rand"
	"testing"

	"github.com/taurusgroup/multi-party-sig/pkg/math/curve"
	"github.com/taurusgroup/multi-party-sig/pkg/math/sample"
	"github.com/taurusgroup/multi-party-sig/pkg/party"
	"github.com/taurusgroup/multi-party-sig/pkg/protocol"
	"github.com/taurusgroup/multi-party-sig/protocols/doerner"
	"github.com/taurusgroup/multi-party-sig/protocols/frost"
)

func TestReplayRefreshSharesKeygenTag(t *testing.T) {
	group := curve.Secp256k1{}
	sid := []byte("same session identifier")
	ids := party.IDSlice{"a", "b", "c"}
	t.Run("frost", func(t *testing.T) {
		hk, err := protocol.NewMultiHandler(frost.Keygen(group, "a", ids, 1), sid)
		if err != nil {
			t.Fatal(err)
		}
		s := sample.Scalar(rand.Reader, group)
		shares := map[party.ID]curve.Point{}
		for _, id := range ids {
			shares[id] = s.ActOnBase()
		}
		cfg := &frost.Config{ID: "a", Threshold: 1, PrivateShare: s, PublicKey: s.ActOnBase(), ChainKey: make([]byte, 32), VerificationShares: party.NewPointMap(shares)}
		hr, err := protocol.NewMultiHandler(frost.Refresh(cfg, ids), sid)
		if err != nil {
			t.Fatal(err)
		}
		mk, mr := <-hk.Listen(), <-hr.Listen()
		if bytes.Equal(mk.SSID, mr.SSID) && mk.Protocol == mr.Protocol {
			t.Fatalf("key generation and refresh have the same tag: protocol %q", mr.Protocol)
		}
	})
	t.Run("doerner", func(t *testing.T) {
		hk, err := protocol.NewTwoPartyHandler(doerner.Keygen(group, true, "a", "b", nil), sid, true)
		if err != nil {
			t.Fatal(err)
		}
		s := sample.Scalar(rand.Reader, group)
		cfg := &doerner.ConfigReceiver{SecretShare: s, Public: s.ActOnBase(), ChainKey: make([]byte, 32)}
		hr, err := protocol.NewTwoPartyHandler(doerner.RefreshReceiver(cfg, "a", "b", nil), sid, true)
		if err != nil {
			t.Fatal(err)
		}
		mk, mr := <-hk.Listen(), <-hr.Listen()
		if bytes.Equal(mk.SSID, mr.SSID) && mk.Protocol == mr.Protocol {
			t.Fatalf("key generation and refresh have the same tag: protocol %q", mr.Protocol)
		}
	})
}
