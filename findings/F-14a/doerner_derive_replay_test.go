package keygen_test

// Replay for finding F-14a (property C14): Doerner ConfigReceiver.Derive / ConfigSender.Derive validate the
// new chain key and then drop it: the derived configuration has no chain key, so it does not carry the BIP-32
// chain code of the child and a second derivation fails ("expected 32 bytes for chain key, found 0").

import (
	"bytes"
	"testing"

	"github.com/taurusgroup/multi-party-sig/pkg/math/curve"
	"github.com/taurusgroup/multi-party-sig/protocols/doerner/keygen"
)

func TestReplayDoernerDeriveKeepsChainKey(t *testing.T) {
	group := curve.Secp256k1{}
	one := group.NewScalar().SetNat(group.Order().Nat().SetUint64(1))
	chain := bytes.Repeat([]byte{7}, 32)
	r := &keygen.ConfigReceiver{SecretShare: group.NewScalar().Set(one), Public: group.NewBasePoint(), ChainKey: chain}
	s := &keygen.ConfigSender{SecretShare: group.NewScalar().Set(one), Public: group.NewBasePoint(), ChainKey: chain}

	r1, err := r.DeriveBIP32(0)
	if err != nil {
		t.Fatal(err)
	}
	s1, err := s.DeriveBIP32(0)
	if err != nil {
		t.Fatal(err)
	}
	if len(r1.ChainKey) != 32 || len(s1.ChainKey) != 32 {
		t.Fatalf("derived configurations lost their chain key: receiver %d bytes, sender %d bytes", len(r1.ChainKey), len(s1.ChainKey))
	}
	if !bytes.Equal(r1.ChainKey, s1.ChainKey) {
		t.Fatalf("parties disagree on the child chain key")
	}
	if _, err := r1.DeriveBIP32(1); err != nil {
		t.Fatalf("derivation cannot be repeated on derived material: %v", err)
	}
	if _, err := s1.DeriveBIP32(1); err != nil {
		t.Fatalf("derivation cannot be repeated on derived material: %v", err)
	}
}
