package protocol_test

// Replay for finding F-15a (property C15): Message.UnmarshalBinary swallowed decoding errors and
// left a silently empty message.

import (
	"testing"

	"github.com/taurusgroup/multi-party-sig/pkg/protocol"
)

func TestReplayMessageUnmarshalGarbage(t *testing.T) {
	for _, data := range [][]byte{{0xff}, {0x01, 0x02}, []byte("not cbor at all")} {
		var m protocol.Message
		if err := m.UnmarshalBinary(data); err == nil {
			t.Errorf("UnmarshalBinary(%q) reported success; message = %+v", data, m)
		}
	}
}
