package frost_test

// Witness for obligations of the multi-party handler (driver R3; properties C07, C05, C17, C06): FROST key generation
// and signing with three honest parties under adversarial but fair delivery schedules - every message delivered twice,
// newest first, point-to-point before broadcast, one party racing ahead so that its later-round messages reach the
// others early. Every party must finish without a panic, and with the same group key / a valid signature.
//
// Run (from /repo): go test -overlay <ov.json> -vet=off -run TestWitnessHandlerSchedules ./protocols/frost
// where the overlay maps protocols/frost/zz_govc_witness_test.go to this file.

import (
	"fmt"
	"sort"
	"testing"

	"github.com/taurusgroup/multi-party-sig/pkg/math/curve"
	"github.com/taurusgroup/multi-party-sig/pkg/party"
	"github.com/taurusgroup/multi-party-sig/pkg/protocol"
	"github.com/taurusgroup/multi-party-sig/protocols/frost"
)

type wSchedule func(pending []*protocol.Message) []*protocol.Message

func wRun(t *testing.T, name string, ids party.IDSlice, mk func(id party.ID) protocol.StartFunc, order wSchedule) map[party.ID]interface{} {
	hs := map[party.ID]*protocol.MultiHandler{}
	for _, id := range ids {
		h, err := protocol.NewMultiHandler(mk(id), []byte("witness-"+name))
		if err != nil {
			t.Fatalf("%s: start %s: %v", name, id, err)
		}
		hs[id] = h
	}
	accept := func(id party.ID, m *protocol.Message) (p interface{}) {
		defer func() { p = recover() }()
		hs[id].Accept(m)
		return nil
	}
	var pending []*protocol.Message
	drain := func() {
		for _, id := range ids {
			for {
				select {
				case m, ok := <-hs[id].Listen():
					if !ok {
						goto next
					}
					pending = append(pending, m)
					continue
				default:
				}
				break
			}
		next:
		}
	}
	drain()
	for steps := 0; len(pending) > 0 && steps < 10000; steps++ {
		pending = order(pending)
		m := pending[0]
		pending = pending[1:]
		for _, to := range ids {
			if !m.IsFor(to) {
				continue
			}
			for rep := 0; rep < 2; rep++ { // every message is delivered twice
				if p := accept(to, m); p != nil {
					t.Fatalf("%s: party %s panicked on a round %d message from %s: %v", name, to, m.RoundNumber, m.From, p)
				}
			}
		}
		drain()
	}
	out := map[party.ID]interface{}{}
	for _, id := range ids {
		res, err := hs[id].Result()
		if err != nil {
			t.Fatalf("%s: party %s did not finish although every message was delivered: %v", name, id, err)
		}
		out[id] = res
	}
	return out
}

func TestWitnessHandlerSchedules(t *testing.T) {
	group := curve.Secp256k1{}
	ids := party.IDSlice{"a", "b", "c"}
	schedules := map[string]wSchedule{
		"fifo":   func(p []*protocol.Message) []*protocol.Message { return p },
		"newest": func(p []*protocol.Message) []*protocol.Message { // newest first: later rounds overtake earlier ones
			q := append([]*protocol.Message{}, p...)
			sort.SliceStable(q, func(i, j int) bool { return q[i].RoundNumber > q[j].RoundNumber })
			return q
		},
		"p2p-first": func(p []*protocol.Message) []*protocol.Message {
			q := append([]*protocol.Message{}, p...)
			sort.SliceStable(q, func(i, j int) bool { return !q[i].Broadcast && q[j].Broadcast })
			return q
		},
		"one-sender-first": func(p []*protocol.Message) []*protocol.Message { // everything from c before anything else
			q := append([]*protocol.Message{}, p...)
			sort.SliceStable(q, func(i, j int) bool { return q[i].From > q[j].From })
			return q
		},
	}
	for name, order := range schedules {
		res := wRun(t, "keygen-"+name, ids, func(id party.ID) protocol.StartFunc { return frost.Keygen(group, id, ids, 1) }, order)
		configs := map[party.ID]*frost.Config{}
		var ref curve.Point
		for _, id := range ids {
			c, ok := res[id].(*frost.Config)
			if !ok {
				t.Fatalf("%s: party %s: result %T", name, id, res[id])
			}
			if ref == nil {
				ref = c.PublicKey
			} else if !ref.Equal(c.PublicKey) {
				t.Fatalf("%s: parties disagree on the group key", name)
			}
			configs[id] = c
		}
		msg := []byte("witness message")
		sres := wRun(t, "sign-"+name, ids, func(id party.ID) protocol.StartFunc { return frost.Sign(configs[id], ids, msg) }, order)
		for _, id := range ids {
			sig, ok := sres[id].(frost.Signature)
			if !ok {
				t.Fatalf("%s: party %s: signature result %T", name, id, sres[id])
			}
			if !sig.Verify(ref, msg) {
				t.Fatalf("%s: party %s: signature does not verify", name, id)
			}
		}
	}
	_ = fmt.Sprint
}
