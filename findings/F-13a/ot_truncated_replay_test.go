package ot

// Replay for finding F-13a (properties C13, C05): the receiver of the OT multiplication indexes the sender's message
// by its own batch size without checking the lengths the peer chose: a sender message with a short RCheck or a short
// CombinedPads list (a CBOR array decodes to its own length) makes MultiplyReceiver.Round2 panic with an index out of
// range instead of returning an error. In Doerner signing this is round2R.Finalize of the honest receiver.

import (
	"crypto/rand"
	"testing"

	"github.com/taurusgroup/multi-party-sig/pkg/hash"
	"github.com/taurusgroup/multi-party-sig/pkg/math/sample"
	"github.com/taurusgroup/multi-party-sig/pkg/pool"
)

func TestReplayMultiplyTruncatedSenderMessage(t *testing.T) {
	pl := pool.NewPool(0)
	defer pl.TearDown()
	sendSetup, receiveSetup, err := runCorreOTSetup(pl, hash.New())
	if err != nil {
		t.Fatal(err)
	}
	alpha := sample.Scalar(rand.Reader, testGroup)
	beta := sample.Scalar(rand.Reader, testGroup)
	for _, field := range []string{"RCheck", "CombinedPads", "UCheck-nil", "pad-short"} {
		t.Run(field, func(t *testing.T) {
			H := hash.New()
			_ = H.WriteAny([]byte(field))
			sender := NewMultiplySender(H.Clone(), sendSetup, alpha)
			receiver, err := NewMultiplyReceiver(H.Clone(), receiveSetup, beta)
			if err != nil {
				t.Fatal(err)
			}
			msgS1, _, err := sender.Round1(receiver.Round1())
			if err != nil {
				t.Fatal(err)
			}
			switch field {
			case "RCheck":
				msgS1.RCheck = msgS1.RCheck[:len(msgS1.RCheck)/2]
			case "CombinedPads":
				msgS1.Msg.CombinedPads = msgS1.Msg.CombinedPads[:len(msgS1.Msg.CombinedPads)/2]
			case "UCheck-nil":
				msgS1.UCheck = nil
			case "pad-short":
				msgS1.Msg.CombinedPads[3][0] = msgS1.Msg.CombinedPads[3][0][:5]
			}
			defer func() {
				if r := recover(); r != nil {
					t.Fatalf("Round2 panicked on a malformed sender message: %v", r)
				}
			}()
			if _, err := receiver.Round2(msgS1); err == nil {
				t.Fatalf("malformed sender message accepted")
			}
		})
	}
}
