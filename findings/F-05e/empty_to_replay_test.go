package cmp_test

// Replay for finding F-05e (property C05): the handler accepts a point-to-point message whose To header is empty
// (it means "for everybody"), and several CMP rounds use msg.To as a key into their per-party tables
// (r.PaillierPublic[msg.To], r.Pedersen[msg.To], r.K[to], ...). With To == "" the lookup yields nil and the honest
// recipient panics inside VerifyMessage. Here: CMP keygen round 4, a single message of party b with its To cleared.

import (
	"testing"

	"github.com/taurusgroup/multi-party-sig/pkg/math/curve"
	"github.com/taurusgroup/multi-party-sig/pkg/party"
	"github.com/taurusgroup/multi-party-sig/pkg/pool"
	"github.com/taurusgroup/multi-party-sig/pkg/protocol"
	"github.com/taurusgroup/multi-party-sig/protocols/cmp"
)

func TestReplayEmptyToHeader(t *testing.T) {
	pl := pool.NewPool(0)
	defer pl.TearDown()
	ids := party.IDSlice{"a", "b"}
	hs := map[party.ID]*protocol.MultiHandler{}
	for _, id := range ids {
		h, err := protocol.NewMultiHandler(cmp.Keygen(curve.Secp256k1{}, id, ids, 1, pl), []byte("sid"))
		if err != nil {
			t.Fatal(err)
		}
		hs[id] = h
	}
	defer func() {
		if r := recover(); r != nil {
			t.Fatalf("honest party panicked on a message with an empty To header: %v", r)
		}
	}()
	tampered := false
	for steps := 0; steps < 200; steps++ {
		progressed := false
		for _, id := range ids {
			select {
			case msg, ok := <-hs[id].Listen():
				if !ok {
					continue
				}
				progressed = true
				for _, other := range ids {
					if other == id {
						continue
					}
					m := *msg
					if id == "b" && m.RoundNumber == 4 && !m.Broadcast && !tampered {
						m.To = "" // "for everybody": still acceptable to the handler
						tampered = true
					}
					if m.Broadcast || m.To == "" || m.To == other {
						hs[other].Accept(&m)
					}
				}
			default:
			}
		}
		if !progressed {
			break
		}
	}
	if !tampered {
		t.Fatal("the run never produced the round-4 message to tamper with")
	}
}
