package zkmul

// Replay for finding F-05k (property C10): zkmul.Verify feeds the response z = alpha + e*x to
// PublicKey.EncWithNonce without reducing it or checking a range. For an honest proof about a
// plaintext x that is large but valid (|x| close to N/2), |z| exceeds (N-1)/2 and EncWithNonce
// panics: the proof system is not complete on its domain, and a verifier crashes instead of rejecting.

import (
	"crypto/rand"
	"testing"

	"github.com/cronokirby/saferith"
	"github.com/taurusgroup/multi-party-sig/pkg/hash"
	"github.com/taurusgroup/multi-party-sig/pkg/math/curve"
	"github.com/taurusgroup/multi-party-sig/pkg/math/sample"
	"github.com/taurusgroup/multi-party-sig/pkg/zk"
)

func TestReplayMulLargePlaintext(t *testing.T) {
	group := curve.Secp256k1{}
	prover := zk.ProverPaillierPublic
	// x = (N-1)/2 - 5 : a valid Paillier plaintext
	half := new(saferith.Nat).Rsh(prover.N().Nat(), 1, -1)
	five := new(saferith.Nat).SetUint64(5)
	x := new(saferith.Int).SetNat(new(saferith.Nat).Sub(half, five, -1))
	X, rhoX := prover.Enc(x)
	y := sample.IntervalL(rand.Reader)
	Y, _ := prover.Enc(y)
	C := Y.Clone().Mul(prover, x)
	rho := C.Randomize(prover, nil)
	public := Public{X: X, Y: Y, C: C, Prover: prover}
	proof := NewProof(group, hash.New(), public, Private{X: x, Rho: rho, RhoX: rhoX})
	defer func() {
		if r := recover(); r != nil {
			t.Fatalf("Verify of an honest proof panicked: %v", r)
		}
	}()
	if !proof.Verify(group, hash.New(), public) {
		t.Fatal("honest proof rejected")
	}
}
