package zkdec

// Replay for finding F-05k (property C10): zkdec.Verify passes the response Z1 = alpha + e*y to
// EncWithNonce with no reduction or range check; an honest proof about a large (valid) plaintext y
// makes the verifier panic.

import (
	"testing"

	"github.com/cronokirby/saferith"
	"github.com/taurusgroup/multi-party-sig/pkg/hash"
	"github.com/taurusgroup/multi-party-sig/pkg/math/curve"
	"github.com/taurusgroup/multi-party-sig/pkg/zk"
)

func TestReplayDecWideResponse(t *testing.T) {
	group := curve.Secp256k1{}
	prover := zk.ProverPaillierPublic
	half := new(saferith.Nat).Rsh(prover.N().Nat(), 1, -1)
	y := new(saferith.Int).SetNat(new(saferith.Nat).Sub(half, new(saferith.Nat).SetUint64(5), -1))
	x := group.NewScalar().SetNat(y.Mod(group.Order()))
	C, rho := prover.Enc(y)
	public := Public{C: C, X: x, Prover: prover, Aux: zk.Pedersen}
	proof := NewProof(group, hash.New(), public, Private{Y: y, Rho: rho})
	defer func() {
		if r := recover(); r != nil {
			t.Fatalf("Verify of an honest proof panicked: %v", r)
		}
	}()
	if !proof.Verify(hash.New(), public) {
		t.Fatal("honest proof rejected")
	}
}
