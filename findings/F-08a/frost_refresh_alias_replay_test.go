package frost

// Replay for finding F-08a (property C08): FROST refresh hands the caller's Config.PrivateShare object to the
// session and round3.Finalize adds the received shares to it IN PLACE: when the refresh ends (or aborts after round 3
// started adding) the previous epoch's configuration no longer holds its own share -- its share does not match its
// own entry in the verification-share table any more, and old and new configurations hold the very same object.

import (
	"sync"
	"testing"

	"github.com/taurusgroup/multi-party-sig/internal/test"
	"github.com/taurusgroup/multi-party-sig/pkg/math/curve"
	"github.com/taurusgroup/multi-party-sig/pkg/party"
	"github.com/taurusgroup/multi-party-sig/pkg/protocol"
)

func TestReplayFrostRefreshKeepsOldEpochIntact(t *testing.T) {
	ids := party.IDSlice{"a", "b", "c"}
	n := test.NewNetwork(ids)
	var mu sync.Mutex
	old := map[party.ID]*Config{}
	fresh := map[party.ID]*Config{}
	var wg sync.WaitGroup
	for _, id := range ids {
		wg.Add(1)
		go func(id party.ID) {
			defer wg.Done()
			h, err := protocol.NewMultiHandler(Keygen(curve.Secp256k1{}, id, ids, 1), nil)
			if err != nil {
				t.Error(err)
				return
			}
			test.HandlerLoop(id, h, n)
			r, err := h.Result()
			if err != nil {
				t.Error(err)
				return
			}
			c0 := r.(*Config)
			h, err = protocol.NewMultiHandler(Refresh(c0, ids), nil)
			if err != nil {
				t.Error(err)
				return
			}
			test.HandlerLoop(id, h, n)
			r, err = h.Result()
			if err != nil {
				t.Error(err)
				return
			}
			mu.Lock()
			old[id], fresh[id] = c0, r.(*Config)
			mu.Unlock()
		}(id)
	}
	wg.Wait()
	if t.Failed() {
		return
	}
	for _, id := range ids {
		c0, c1 := old[id], fresh[id]
		if !c0.PrivateShare.ActOnBase().Equal(c0.VerificationShares.Points[id]) {
			t.Errorf("party %s: after the refresh the OLD configuration's share no longer matches its own public share", id)
		}
		if c0.PrivateShare == c1.PrivateShare {
			t.Errorf("party %s: old and refreshed configuration hold the same share object", id)
		}
		if c0.PrivateShare.Equal(c1.PrivateShare) {
			t.Errorf("party %s: the share did not change", id)
		}
	}
}
