package doerner_test

// Witness for obligations of the two-party handler (driver R3; properties C03, C07, C05, C17): Doerner key generation,
// signing, refresh and signing again, through TwoPartyHandler, with every message delivered twice and in two
// delivery orders (oldest first, newest first). Both parties must finish without a panic; the keys must agree and the
// signatures verify.
//
// Run (from /repo): go test -overlay <ov.json> -vet=off -run TestWitnessTwoPartySchedules ./protocols/doerner
// where the overlay maps protocols/doerner/zz_govc_witness_test.go to this file.

import (
	"sort"
	"testing"

	"github.com/taurusgroup/multi-party-sig/pkg/ecdsa"
	"github.com/taurusgroup/multi-party-sig/pkg/math/curve"
	"github.com/taurusgroup/multi-party-sig/pkg/party"
	"github.com/taurusgroup/multi-party-sig/pkg/pool"
	"github.com/taurusgroup/multi-party-sig/pkg/protocol"
	"github.com/taurusgroup/multi-party-sig/protocols/doerner"
)

func w2Run(t *testing.T, name string, ids []party.ID, mk func(id party.ID) protocol.StartFunc, newestFirst bool) map[party.ID]interface{} {
	hs := map[party.ID]*protocol.TwoPartyHandler{}
	for i, id := range ids {
		h, err := protocol.NewTwoPartyHandler(mk(id), []byte("witness2-"+name), i == 0)
		if err != nil {
			t.Fatalf("%s: start %s: %v", name, id, err)
		}
		hs[id] = h
	}
	accept := func(id party.ID, m *protocol.Message) (p interface{}) {
		defer func() { p = recover() }()
		hs[id].Accept(m)
		return nil
	}
	var pending []*protocol.Message
	drain := func() {
		for _, id := range ids {
			for {
				select {
				case m, ok := <-hs[id].Listen():
					if !ok {
						goto next
					}
					pending = append(pending, m)
					continue
				default:
				}
				break
			}
		next:
		}
	}
	drain()
	for steps := 0; len(pending) > 0 && steps < 10000; steps++ {
		if newestFirst {
			sort.SliceStable(pending, func(i, j int) bool { return pending[i].RoundNumber > pending[j].RoundNumber })
		}
		m := pending[0]
		pending = pending[1:]
		for _, to := range ids {
			if !m.IsFor(to) {
				continue
			}
			for rep := 0; rep < 2; rep++ {
				if p := accept(to, m); p != nil {
					t.Fatalf("%s: party %s panicked on a round %d message: %v", name, to, m.RoundNumber, p)
				}
			}
		}
		drain()
	}
	out := map[party.ID]interface{}{}
	for _, id := range ids {
		res, err := hs[id].Result()
		if err != nil {
			t.Fatalf("%s: party %s did not finish although every message was delivered: %v", name, id, err)
		}
		out[id] = res
	}
	return out
}

func TestWitnessTwoPartySchedules(t *testing.T) {
	group := curve.Secp256k1{}
	pl := pool.NewPool(0)
	defer pl.TearDown()
	ids := []party.ID{"a", "b"} // a: receiver, b: sender
	hash := []byte("0123456789abcdef0123456789abcdef")
	for _, newest := range []bool{false, true} {
		name := "fifo"
		if newest {
			name = "newest"
		}
		res := w2Run(t, "keygen-"+name, ids, func(id party.ID) protocol.StartFunc {
			if id == "a" {
				return doerner.Keygen(group, true, "a", "b", pl)
			}
			return doerner.Keygen(group, false, "b", "a", pl)
		}, newest)
		cr, ok1 := res["a"].(*doerner.ConfigReceiver)
		cs, ok2 := res["b"].(*doerner.ConfigSender)
		if !ok1 || !ok2 {
			t.Fatalf("%s: results %T / %T", name, res["a"], res["b"])
		}
		if !cr.Public.Equal(cs.Public) {
			t.Fatalf("%s: the two parties disagree on the key", name)
		}
		sign := func(tag string, cr *doerner.ConfigReceiver, cs *doerner.ConfigSender) {
			sres := w2Run(t, tag+"-"+name, ids, func(id party.ID) protocol.StartFunc {
				if id == "a" {
					return doerner.SignReceiver(cr, "a", "b", hash, pl)
				}
				return doerner.SignSender(cs, "b", "a", hash, pl)
			}, newest)
			for _, id := range ids {
				sig, ok := sres[id].(*ecdsa.Signature)
				if !ok {
					t.Fatalf("%s %s: party %s: result %T", tag, name, id, sres[id])
				}
				if !sig.Verify(cr.Public, hash) {
					t.Fatalf("%s %s: party %s: signature does not verify", tag, name, id)
				}
			}
		}
		sign("sign", cr, cs)
		rres := w2Run(t, "refresh-"+name, ids, func(id party.ID) protocol.StartFunc {
			if id == "a" {
				return doerner.RefreshReceiver(cr, "a", "b", pl)
			}
			return doerner.RefreshSender(cs, "b", "a", pl)
		}, newest)
		ncr, ok1 := rres["a"].(*doerner.ConfigReceiver)
		ncs, ok2 := rres["b"].(*doerner.ConfigSender)
		if !ok1 || !ok2 || !ncr.Public.Equal(cr.Public) || !ncs.Public.Equal(cr.Public) {
			t.Fatalf("%s: refresh changed the key or failed", name)
		}
		sign("sign-after-refresh", ncr, ncs)
	}
}
