package frost_test

// Replay for finding F-20e (property C20): a party list that contains an identifier whose scalar is zero (the
// single byte 0x00, the empty string, or the big-endian encoding of the group order) must be refused when the
// handler is constructed. Before the fix the session started and every participant panicked in a later round
// ("attempt to leak secret": the dealer evaluates its polynomial at the identifier's scalar, i.e. at 0).

import (
	"testing"

	"github.com/taurusgroup/multi-party-sig/pkg/math/curve"
	"github.com/taurusgroup/multi-party-sig/pkg/party"
	"github.com/taurusgroup/multi-party-sig/pkg/protocol"
	"github.com/taurusgroup/multi-party-sig/protocols/cmp"
	"github.com/taurusgroup/multi-party-sig/protocols/frost"
)

func drive(t *testing.T, hs map[party.ID]*protocol.MultiHandler) (panicked interface{}) {
	defer func() { panicked = recover() }()
	for step := 0; step < 1000; step++ {
		progress := false
		for _, h := range hs {
			select {
			case m, ok := <-h.Listen():
				if !ok {
					continue
				}
				progress = true
				for id, other := range hs {
					if id != m.From && m.IsFor(id) && other.CanAccept(m) {
						other.Accept(m)
					}
				}
			default:
			}
		}
		if !progress {
			return nil
		}
	}
	return nil
}

func TestReplayZeroScalarIdentifier(t *testing.T) {
	ids := party.IDSlice{"a", "b", "\x00"}
	t.Run("frost.Keygen", func(t *testing.T) {
		hs := map[party.ID]*protocol.MultiHandler{}
		for _, id := range ids {
			h, err := protocol.NewMultiHandler(frost.Keygen(curve.Secp256k1{}, id, ids, 1), []byte("sid"))
			if err != nil {
				return // refused: the expected behaviour
			}
			hs[id] = h
		}
		if p := drive(t, hs); p != nil {
			t.Fatalf("session started with a zero-scalar identifier and panicked later: %v", p)
		}
		t.Fatalf("a session was started with a zero-scalar identifier")
	})
	t.Run("frost.Keygen/colliding-identifiers", func(t *testing.T) {
		// "a" and "\x00a" are different strings with the same scalar: two parties would share one evaluation point
		// (Lagrange interpolation over such a set divides by zero)
		col := party.IDSlice{"a", "\x00a", "b"}
		_, err := protocol.NewMultiHandler(frost.Keygen(curve.Secp256k1{}, "a", col, 1), []byte("sid"))
		if err == nil {
			t.Fatalf("a session was started with two identifiers that map to the same scalar")
		}
	})
	t.Run("cmp.Keygen", func(t *testing.T) {
		_, err := protocol.NewMultiHandler(cmp.Keygen(curve.Secp256k1{}, "a", ids, 1, nil), []byte("sid"))
		if err == nil {
			t.Fatalf("a session was started with a zero-scalar identifier")
		}
	})
}
