package zknth

// Replay for findings F-05a/c/d/j (property C05): a proof with an absent field must be rejected, not panic.
// go test -overlay <ov.json> -vet=off -run TestReplayAbsentField ./pkg/zk/nth/

import (
	"crypto/rand"
	"fmt"
	"testing"

	"github.com/fxamacker/cbor/v2"
	"github.com/taurusgroup/multi-party-sig/pkg/hash"
	"github.com/taurusgroup/multi-party-sig/pkg/math/curve"
	"github.com/taurusgroup/multi-party-sig/pkg/math/sample"
	"github.com/taurusgroup/multi-party-sig/pkg/zk"
)

var _ = sample.Scalar
var _ = rand.Reader
var _ = curve.Secp256k1{}
var _ = zk.Pedersen

func TestReplayAbsentField(t *testing.T) {
	N := zk.ProverPaillierPublic
	rho := sample.UnitModN(rand.Reader, N.N())
	r := N.ModulusSquared().Exp(rho, N.N().Nat())
	public := Public{N: N, R: r}
	proof := NewProof(hash.New(), public, Private{Rho: rho})
	b, err := cbor.Marshal(proof)
	if err != nil {
		t.Fatal(err)
	}
	var m map[string]cbor.RawMessage
	if err := cbor.Unmarshal(b, &m); err != nil {
		t.Fatal(err)
	}
	try := func(name string, data []byte) {
		p2 := &Proof{}
		if err := cbor.Unmarshal(data, p2); err != nil {
			return
		}
		func() {
			defer func() {
				if r := recover(); r != nil {
					t.Errorf("%s: Verify panicked: %v", name, r)
				}
			}()
			if p2.Verify(hash.New(), public) {
				t.Errorf("%s: malformed proof verified", name)
			}
		}()
	}
	for k := range m {
		m2 := map[string]cbor.RawMessage{}
		for k2, v := range m {
			if k2 != k {
				m2[k2] = v
			}
		}
		d, _ := cbor.Marshal(m2)
		try(fmt.Sprintf("without %s", k), d)
	}
	empty, _ := cbor.Marshal(map[string]int{})
	try("empty map", empty)
}
