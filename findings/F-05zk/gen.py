# generates per-package replay tests: drop each CBOR key of an honest proof, decode, Verify must not panic
import sys
T = '''package %(pkg)s

// Replay for findings F-05a/c/d/j (property C05): a proof with an absent field must be rejected, not panic.
// go test -overlay <ov.json> -vet=off -run TestReplayAbsentField ./pkg/zk/%(dir)s/

import (
	"crypto/rand"
	"fmt"
	"testing"

	"github.com/fxamacker/cbor/v2"
	"github.com/taurusgroup/multi-party-sig/pkg/hash"
	"github.com/taurusgroup/multi-party-sig/pkg/math/curve"
	"github.com/taurusgroup/multi-party-sig/pkg/math/sample"
	"github.com/taurusgroup/multi-party-sig/pkg/zk"
%(imports)s)

var _ = sample.Scalar
var _ = rand.Reader
var _ = curve.Secp256k1{}
var _ = zk.Pedersen

func TestReplayAbsentField(t *testing.T) {
%(setup)s
	b, err := cbor.Marshal(proof)
	if err != nil {
		t.Fatal(err)
	}
	var m map[string]cbor.RawMessage
	if err := cbor.Unmarshal(b, &m); err != nil {
		t.Fatal(err)
	}
	try := func(name string, data []byte) {
		p2 := %(empty)s
		if err := cbor.Unmarshal(data, p2); err != nil {
			return
		}
		func() {
			defer func() {
				if r := recover(); r != nil {
					t.Errorf("%%s: Verify panicked: %%v", name, r)
				}
			}()
			if %(verify)s {
				t.Errorf("%%s: malformed proof verified", name)
			}
		}()
	}
	for k := range m {
		m2 := map[string]cbor.RawMessage{}
		for k2, v := range m {
			if k2 != k {
				m2[k2] = v
			}
		}
		d, _ := cbor.Marshal(m2)
		try(fmt.Sprintf("without %%s", k), d)
	}
	empty, _ := cbor.Marshal(map[string]int{})
	try("empty map", empty)
}
'''
cases = {
 'enc': dict(pkg='zkenc', dir='enc', imports='', empty='&Proof{}', verify='p2.Verify(group, hash.New(), public)',
   setup='''	group := curve.Secp256k1{}
	k := sample.IntervalL(rand.Reader)
	K, rho := zk.ProverPaillierPublic.Enc(k)
	public := Public{K: K, Prover: zk.ProverPaillierPublic, Aux: zk.Pedersen}
	proof := NewProof(group, hash.New(), public, Private{K: k, Rho: rho})'''),
 'nth': dict(pkg='zknth', dir='nth', imports='', empty='&Proof{}', verify='p2.Verify(hash.New(), public)',
   setup='''	N := zk.ProverPaillierPublic
	rho := sample.UnitModN(rand.Reader, N.N())
	r := N.ModulusSquared().Exp(rho, N.N().Nat())
	public := Public{N: N, R: r}
	proof := NewProof(hash.New(), public, Private{Rho: rho})'''),
 'fac': dict(pkg='zkfac', dir='fac', imports='', empty='&Proof{}', verify='p2.Verify(public, hash.New())',
   setup='''	public := Public{N: zk.ProverPaillierPublic.N(), Aux: zk.Pedersen}
	proof := NewProof(Private{P: zk.ProverPaillierSecret.P(), Q: zk.ProverPaillierSecret.Q()}, hash.New(), public)'''),
 'mod': dict(pkg='zkmod', dir='mod', imports='\t"github.com/taurusgroup/multi-party-sig/pkg/pool"\n', empty='&Proof{}', verify='p2.Verify(public, hash.New(), pl)',
   setup='''	pl := pool.NewPool(0)
	defer pl.TearDown()
	sk := zk.ProverPaillierSecret
	public := Public{N: sk.PublicKey.N()}
	proof := NewProof(hash.New(), Private{P: sk.P(), Q: sk.Q(), Phi: sk.Phi()}, public, pl)'''),
 'logstar': dict(pkg='zklogstar', dir='logstar', imports='', empty='Empty(group)', verify='p2.Verify(hash.New(), public)',
   setup='''	group := curve.Secp256k1{}
	G := sample.Scalar(rand.Reader, group).ActOnBase()
	x := sample.IntervalL(rand.Reader)
	C, rho := zk.ProverPaillierPublic.Enc(x)
	X := group.NewScalar().SetNat(x.Mod(group.Order())).Act(G)
	public := Public{C: C, X: X, G: G, Prover: zk.ProverPaillierPublic, Aux: zk.Pedersen}
	proof := NewProof(group, hash.New(), public, Private{X: x, Rho: rho})'''),
}
for n, c in cases.items():
    open('%s_replay_test.go' % n, 'w').write(T % c)
