package main

import (
	"regexp"
	"fmt"
	"go/token"
	"go/types"
	"strings"

	"golang.org/x/tools/go/ssa"
)

func (f *frame) set(v ssa.Value, t T) {
	f.vals[v] = t
}

// exec gives semantics to one non-control instruction.
func (f *frame) exec(ins ssa.Instruction, st *State) {
	e := f.e
	switch i := ins.(type) {
	case *ssa.DebugRef:
		return
	case *ssa.Alloc:
		el := i.Type().Underlying().(*types.Pointer).Elem()
		a := f.alloc(st)
		f.set(i, T{a, "Int", i.Type()})
		switch u := el.Underlying().(type) {
		case *types.Struct:
			f.zeroStruct(a, el, st)
		case *types.Array:
			if h, hs := f.elemHeap(u.Elem()); h != "" {
				inner := "(Array Int " + e.sortOf(u.Elem()) + ")"
				e.setHeap(st, h, hs, "(store "+e.H(st, h, hs)+" "+a+" ((as const "+inner+") "+e.zero(u.Elem())+"))")
			}
		default:
			srt := e.sortOf(el)
			ad := primAddr{"P_" + sanitize(srt), "(Array Int " + srt + ")", a}
			f.addrs[i] = ad
			f.storeAt(ad, e.zero(el), st)
		}
	case *ssa.FieldAddr:
		base := f.val(i.X, st)
		f.safety(i, "nil-deref", st, "(not (= "+base.S+" 0))")
		S := i.X.Type().Underlying().(*types.Pointer).Elem()
		h, hs, ft, fname := f.heapOfField(S, i.Field)
		if _, ok := ft.Underlying().(*types.Struct); ok {
			f.set(i, T{f.subRef(S, i.Field, base.S), "Int", i.Type()})
			return
		}
		key := e.structKey(S)
		fn := "fa_" + key + "_" + fname
		e.declFun(fn, []string{"Int"}, "Int")
		fat := "(" + fn + " " + base.S + ")"
		e.declFun("owner", []string{"Int"}, "Int")
		e.addDecl("fafact@"+fat, "(assert (and (not (= "+fat+" 0)) (= (owner "+fat+") (owner "+base.S+"))))")
		f.set(i, T{fat, "Int", i.Type()})
		f.addrs[i] = fieldAddr{heap: h, sort: hs, base: base.S, guardS: key, fname: fname, ftype: ft}
	case *ssa.Field:
		x := f.val(i.X, st)
		k := e.sortOf(i.X.Type())
		us := i.X.Type().Underlying().(*types.Struct)
		f.set(i, T{fmt.Sprintf("(%s_f%d %s)", k, i.Field, x.S), e.sortOf(us.Field(i.Field).Type()), us.Field(i.Field).Type()})
	case *ssa.IndexAddr:
		idx := f.val(i.Index, st)
		switch xt := i.X.Type().Underlying().(type) {
		case *types.Slice:
			s := f.val(i.X, st)
			f.safety(i, "index", st, and("(<= 0 "+idx.S+")", "(< "+idx.S+" (slen "+s.S+"))"))
			pos := "(+ (soff " + s.S + ") " + idx.S + ")"
			if h, hs := f.elemHeap(xt.Elem()); h != "" {
				f.addrs[i] = elemAddr{h, hs, "(sarr " + s.S + ")", pos}
				f.set(i, T{f.eaTerm("(sarr "+s.S+")", pos), "Int", i.Type()})
			} else {
				f.set(i, T{f.elemRef(xt.Elem(), "(sarr "+s.S+")", pos), "Int", i.Type()})
			}
		case *types.Pointer:
			at := xt.Elem().Underlying().(*types.Array)
			p := f.val(i.X, st)
			if _, isA := f.addrs[i.X]; !isA {
				f.safety(i, "nil-deref", st, "(not (= "+p.S+" 0))")
			}
			f.safety(i, "index", st, and("(<= 0 "+idx.S+")", "(< "+idx.S+" "+num(at.Len())+")"))
			if pa, ok := f.addrs[i.X]; ok {
				f.addrs[i] = subElemAddr{pa, idx.S, e.sortOf(at.Elem())}
				f.set(i, T{f.eaTerm(p.S, idx.S), "Int", i.Type()})
			} else if h, hs := f.elemHeap(at.Elem()); h != "" {
				f.addrs[i] = elemAddr{h, hs, p.S, idx.S}
				f.set(i, T{f.eaTerm(p.S, idx.S), "Int", i.Type()})
			} else {
				f.set(i, T{f.elemRef(at.Elem(), p.S, idx.S), "Int", i.Type()})
			}
		}
	case *ssa.Index:
		idx := f.val(i.Index, st)
		x := f.val(i.X, st)
		switch xt := i.X.Type().Underlying().(type) {
		case *types.Array:
			f.safety(i, "index", st, and("(<= 0 "+idx.S+")", "(< "+idx.S+" "+num(xt.Len())+")"))
			f.set(i, T{"(select " + x.S + " " + idx.S + ")", e.sortOf(xt.Elem()), xt.Elem()})
		default: // string
			f.safety(i, "index", st, and("(<= 0 "+idx.S+")", "(< "+idx.S+" (strlen "+x.S+"))"))
			e.declFun("strat", []string{"Int", "Int"}, "Int")
			v := "(strat " + x.S + " " + idx.S + ")"
			e.assume(implies(st.cond, and("(<= 0 "+v+")", "(< "+v+" 256)")))
			f.set(i, T{v, "Int", i.Type()})
		}
	case *ssa.Lookup:
		x := f.val(i.X, st)
		k := f.val(i.Index, st)
		if mt, ok := i.X.Type().Underlying().(*types.Map); ok {
			v, okT := f.mapLookup(x, k.S, st)
			vt := T{v, e.sortOf(mt.Elem()), mt.Elem()}
			// name the value to keep terms small and attach type facts
			n := e.fresh("lk", vt.Sort)
			e.assume(eq(n, v))
			e.assume(implies(st.cond, f.facts(n, mt.Elem(), st)))
			vt.S = n
			if e.protSet[x.S] {
				f.protect(vt)
			}
			if i.CommaOk {
				f.tuples[i] = []T{vt, {okT, "Bool", types.Typ[types.Bool]}}
			} else {
				f.set(i, vt)
			}
		} else { // string index
			f.safety(i, "index", st, and("(<= 0 "+k.S+")", "(< "+k.S+" (strlen "+x.S+"))"))
			e.declFun("strat", []string{"Int", "Int"}, "Int")
			f.set(i, T{"(strat " + x.S + " " + k.S + ")", "Int", i.Type()})
		}
	case *ssa.MapUpdate:
		m := f.val(i.Map, st)
		f.safety(i, "nil-map-store", st, "(not (= "+m.S+" 0))")
		f.mapStore(m, f.val(i.Key, st).S, f.val(i.Value, st).S, st)
	case *ssa.UnOp:
		f.unop(i, st)
	case *ssa.BinOp:
		f.set(i, f.binop(i, i.Op, f.val(i.X, st), f.val(i.Y, st), i.X.Type(), i.Type(), st))
	case *ssa.Store:
		v := f.val(i.Val, st)
		el := i.Addr.Type().Underlying().(*types.Pointer).Elem()
		p := f.val(i.Addr, st)
		if _, isA := f.addrs[i.Addr]; !isA {
			f.safety(i, "nil-deref", st, "(not (= "+p.S+" 0))")
		}
		if _, ok := el.Underlying().(*types.Struct); ok {
			f.storeStruct(p.S, el, v.S, st)
			return
		}
		a := f.addrOf(i.Addr, st)
		f.guardCheck(a, i.Addr, st, "guarded-write")
		f.storeAt(a, v.S, st)
		if fa, ok := a.(fieldAddr); ok {
			if inv := e.db.typeinv[fa.guardS]; inv != nil {
				if fad, ok := i.Addr.(*ssa.FieldAddr); ok {
					env := &specEnv{f: f, vars: map[string]T{"self": {fa.base, "Int", fad.X.Type()}}, cur: st, old: st, pkg: e.db.typeinvP[fa.guardS], nbound: 1}
					if it, err := env.evalBool(inv); err == nil {
						an, pos := f.anchor(i)
						e.addOb("typeinv-store", inv.Text+"|"+an, inv.Tags, pos, st.cond, it)
					}
				}
			}
		}
	case *ssa.MakeInterface:
		x := f.val(i.X, st)
		id := e.typeID(i.X.Type())
		var payload string
		switch i.X.Type().Underlying().(type) {
		case *types.Pointer, *types.Map, *types.Chan, *types.Signature:
			payload = x.S
		case *types.Basic:
			if x.Sort == "Int" {
				payload = x.S
			} else {
				payload = f.box(x)
			}
		default:
			payload = f.box(x)
		}
		f.set(i, T{"(mk_iface " + fmt.Sprint(id) + " " + payload + ")", "Iface", i.Type()})
	case *ssa.ChangeInterface:
		x := f.val(i.X, st)
		f.set(i, T{x.S, "Iface", i.Type()})
		// the type system guarantees: a value of (non-empty) interface type I is nil or its dynamic type implements I
		if it, ok := i.X.Type().Underlying().(*types.Interface); ok && it.NumMethods() > 0 {
			if _, named := i.X.Type().(*types.Named); named {
				f.e.assume(implies(st.cond, "(or (= (ityp "+x.S+") 0) "+f.hasType(x.S, i.X.Type())+")"))
			}
		}
	case *ssa.ChangeType:
		x := f.val(i.X, st)
		f.set(i, T{x.S, x.Sort, i.Type()})
		if a, ok := f.addrs[i.X]; ok {
			f.addrs[i] = a
		}
	case *ssa.Convert:
		f.convert(i, st)
	case *ssa.MultiConvert:
		f.set(i, f.freshVal("mconv", i.Type(), st))
	case *ssa.SliceToArrayPointer:
		f.set(i, f.freshVal("s2ap", i.Type(), st))
	case *ssa.MakeMap:
		a := f.alloc(st)
		mt := i.Type().Underlying().(*types.Map)
		d, ds, _, _ := f.mapHeaps(mt)
		ks := e.sortOf(mt.Key())
		e.setHeap(st, d, ds, "(store "+e.H(st, d, ds)+" "+a+" ((as const (Array "+ks+" Bool)) false))")
		f.set(i, T{a, "Int", i.Type()})
	case *ssa.MakeSlice:
		a := f.alloc(st)
		ln, cp := f.val(i.Len, st), f.val(i.Cap, st)
		f.safety(i, "makeslice-range", st, and("(<= 0 "+ln.S+")", "(<= "+ln.S+" "+cp.S+")"))
		if rc := f.root.ct; rc != nil && rc.AllocBound != nil {
			env := f.root.specEnv(f.root.entrySt)
			env.pkg = rc.Pkg
			if b, err := env.eval(rc.AllocBound.Expr); err == nil {
				an, pos := f.anchor(i)
				e.addOb("alloc-bound", rc.AllocBound.Text+"|"+an, rc.AllocBound.Tags, pos, st.cond, "(<= "+cp.S+" "+b.S+")")
			}
		}
		stp := i.Type().Underlying().(*types.Slice)
		if h, hs := f.elemHeap(stp.Elem()); h != "" {
			inner := "(Array Int " + e.sortOf(stp.Elem()) + ")"
			e.setHeap(st, h, hs, "(store "+e.H(st, h, hs)+" "+a+" ((as const "+inner+") "+e.zero(stp.Elem())+"))")
		}
		f.set(i, T{"(mk_slice " + a + " 0 " + ln.S + " " + cp.S + ")", "Slice", i.Type()})
	case *ssa.MakeChan:
		a := f.alloc(st)
		sz := f.val(i.Size, st)
		f.safety(i, "makechan-size", st, "(<= 0 "+sz.S+")")
		e.setHeap(st, "CH_closed", chClosedSort, "(store "+e.H(st, "CH_closed", chClosedSort)+" "+a+" false)")
		e.setHeap(st, "CH_len", chLenSort, "(store "+e.H(st, "CH_len", chLenSort)+" "+a+" 0)")
		e.declFun("chcap", []string{"Int"}, "Int")
		e.assume(implies(st.cond, "(= (chcap "+a+") "+sz.S+")"))
		f.set(i, T{a, "Int", i.Type()})
	case *ssa.MakeClosure:
		a := f.alloc(st)
		f.set(i, T{a, "Int", i.Type()})
	case *ssa.Slice:
		f.slice(i, st)
	case *ssa.TypeAssert:
		f.typeAssert(i, st)
	case *ssa.Extract:
		if ts, ok := f.tuples[i.Tuple]; ok && i.Index < len(ts) {
			f.set(i, ts[i.Index])
			return
		}
		f.set(i, f.freshVal("ext", i.Type(), st))
	case *ssa.Range:
		x := f.val(i.X, st)
		f.set(i, T{x.S, x.Sort, i.X.Type()}) // iterator = the collection
		if mt, ok := i.X.Type().Underlying().(*types.Map); ok {
			// ghost set of keys already produced by this iteration
			ks := e.sortOf(mt.Key())
			e.setHeap(st, f.visHeap(i), "(Array "+ks+" Bool)", "((as const (Array "+ks+" Bool)) false)")
		}
	case *ssa.Next:
		f.next(i, st)
	case *ssa.Select:
		f.selectInstr(i, st)
	case *ssa.Send:
		ch := f.val(i.Chan, st)
		f.safety(i, "send-nil-chan", st, "(not (= "+ch.S+" 0))")
		f.safety(i, "send-closed-chan", st, not(f.chClosed(ch.S, st)))
		f.chanElemInv(f.val(i.X, st), st.cond, st, true, i)
	case *ssa.Call:
		rs := f.call(i, i.Common(), st)
		f.bindResults(i, rs)
		if f == f.root || f.ghostsDeclared(i) {
			cname := ""
			if sc := i.Common().StaticCallee(); sc != nil {
				cname = sc.Name()
			} else if i.Common().IsInvoke() {
				cname = i.Common().Method.Name()
			} else if pv, ok := i.Common().Value.(*ssa.Parameter); ok {
				cname = pv.Name() // a call through a function-valued parameter is recorded under the parameter's name
			}
			if cname != "" {
				if len(rs) == 1 && rs[0].Sort == "Bool" {
					e.setHeap(st, "LAST_"+cname, "Bool", rs[0].S)
				}
				if len(rs) == 1 && rs[0].Sort == "Slice" {
					if sl, ok := rs[0].Go.Underlying().(*types.Slice); ok {
						if bt, ok := sl.Elem().Underlying().(*types.Basic); ok && bt.Kind() == types.Uint8 {
							e.declFun("bytesval", []string{"(Array Int Int)", "Int", "Int"}, "Int")
							h, hs := f.elemHeap(sl.Elem())
							e.setHeap(st, "LASTB_"+cname, "Int", "(bytesval (select "+e.H(st, h, hs)+" (sarr "+rs[0].S+")) (soff "+rs[0].S+") (slen "+rs[0].S+"))")
						}
					}
				}
				e.setHeap(st, "CALLED_"+cname, "Bool", "true")
				// calledwith(fn, x): the reference-valued arguments of the calls made so far
				for _, a := range i.Common().Args {
					if av := f.val(a, st); av.Sort == "Int" {
						e.setHeap(st, "ARGS_"+cname, "(Array Int Bool)", "(store "+e.H(st, "ARGS_"+cname, "(Array Int Bool)")+" "+av.S+" true)")
					}
				}
				e.setHeap(st, "COUNT_"+cname, "Int", "(+ "+e.H(st, "COUNT_"+cname, "Int")+" 1)")
			}
		}
	case *ssa.Defer:
		c := i.Common()
		var args []T
		for _, a := range c.Args {
			args = append(args, f.val(a, st))
		}
		var recv T
		if c.IsInvoke() {
			recv = f.val(c.Value, st)
		}
		f.defers = append(f.defers, deferRec{i, args, recv})
		if d := recoverDeferOf(f.fn); d == i {
			if e.recoverSeen == nil {
				e.recoverSeen = map[*ssa.Function]bool{}
			}
			e.recoverSeen[f.fn] = true
		}
	case *ssa.RunDefers:
		for k := len(f.defers) - 1; k >= 0; k-- {
			d := f.defers[k]
			if !d.instr.Block().Dominates(i.Block()) {
				e.note("conditional defer in " + relName(f.fn) + ": state havocked at rundefers")
				e.havocChans = true
				e.havocClass(st, 0)
				e.havocChans = false
				e.havocClass(st, 1)
				continue
			}
			f.callWith(d.instr, d.instr.Common(), d.args, d.recv, st)
		}
	case *ssa.Go:
		// goroutine start: arguments escape; the body is outside the sequential subset
		e.note("go statement in " + relName(f.fn) + " (body not executed; state it can reach is havocked)")
		e.havocChans = true
		e.havocClass(st, 0)
		e.havocChans = false
		e.havocClass(st, 1)
	default:
		e.note(fmt.Sprintf("unsupported instruction %T in %s", ins, relName(f.fn)))
		if v, ok := ins.(ssa.Value); ok {
			f.set(v, f.freshVal("unsup", v.Type(), st))
		}
	}
}

func (f *frame) bindResults(v ssa.Value, rs []T) {
	if tup, ok := v.Type().(*types.Tuple); ok {
		if tup.Len() == 0 {
			return
		}
		f.tuples[v] = rs
		return
	}
	if len(rs) == 1 {
		f.set(v, rs[0])
	}
}

// box turns a non-Int value into an interface payload.
func (f *frame) box(x T) string {
	e := f.e
	k := sanitize(x.Sort)
	e.declFun("box_"+k, []string{x.Sort}, "Int")
	e.declFun("unbox_"+k, []string{"Int"}, x.Sort)
	b := "(box_" + k + " " + x.S + ")"
	e.assume("(and (= (unbox_" + k + " " + b + ") " + x.S + ") (not (= " + b + " 0)))")
	return b
}

func (f *frame) unbox(payload string, t types.Type) string {
	e := f.e
	srt := e.sortOf(t)
	switch t.Underlying().(type) {
	case *types.Pointer, *types.Map, *types.Chan, *types.Signature:
		return payload
	case *types.Basic:
		if srt == "Int" {
			return payload
		}
	}
	k := sanitize(srt)
	e.declFun("box_"+k, []string{srt}, "Int")
	e.declFun("unbox_"+k, []string{"Int"}, srt)
	return "(unbox_" + k + " " + payload + ")"
}

func (f *frame) unop(i *ssa.UnOp, st *State) {
	e := f.e
	switch i.Op {
	case token.MUL: // load
		p := f.val(i.X, st)
		if _, isA := f.addrs[i.X]; !isA {
			f.safety(i, "nil-deref", st, "(not (= "+p.S+" 0))")
		}
		v := f.derefLoad(i.X, st)
		// name it and attach facts
		n := e.fresh("ld", v.Sort)
		e.assume(eq(n, v.S))
		hn, hidx := "", ""
		switch a := f.addrs[i.X].(type) {
		case fieldAddr:
			hn, hidx = a.heap, a.base
		case elemAddr:
			hn, hidx = a.heap, a.arr
		case primAddr:
			hn, hidx = a.heap, a.ref
		}
		e.assume(implies(st.cond, f.factsFrom(n, v.Go, st, hn, hidx)))
		if g, ok := i.X.(*ssa.Global); ok && v.Sort == "Iface" && g.String() == "crypto/rand.Reader" {
			e.assume("(not (= (ityp " + n + ") 0))") // A-RAND: the system random source exists
		}
		if g, ok := i.X.(*ssa.Global); ok && v.Sort == "Int" && globalInitNonNil(g) {
			// A-GLOBINIT: a pointer-typed package-level variable assigned exactly once, in the package initialiser, from an
			// allocation or a constructor that never returns nil
			e.assume("(not (= " + n + " 0))")
			e.assumed["A-GLOBINIT: package-level value "+g.String()+" is initialised once, to a non-nil value"] = true
		}
		if g, ok := i.X.(*ssa.Global); ok && v.Sort == "Iface" && strings.HasPrefix(g.Name(), "Err") {
			// A-GLOBERR: exported/unexported error sentinels (var ErrX = errors.New(...)) are never nil
			e.assume("(not (= (ityp " + n + ") 0))")
			e.assumed["A-GLOBERR: package-level error sentinel "+g.String()+" is non-nil"] = true
		}
		out := T{n, v.Sort, i.Type()}
		if fa, ok := f.addrs[i.X].(fieldAddr); ok && strings.HasPrefix(fa.guardS, "S_"+e.privPkg+"_") && e.privPkg != "" {
			f.protect(out)
		}
		f.set(i, out)
	case token.ARROW: // receive
		ch := f.val(i.X, st)
		f.safety(i, "recv-nil-chan", st, "(not (= "+ch.S+" 0))")
		if i.CommaOk {
			tup := i.Type().(*types.Tuple)
			v := f.freshVal("recv", tup.At(0).Type(), st)
			ok := e.fresh("recvok", "Bool")
			f.tuples[i] = []T{v, {ok, "Bool", types.Typ[types.Bool]}}
			f.chanElemInv(v, and(st.cond, ok), st, false, i)
		} else {
			v := f.freshVal("recv", i.Type(), st)
			f.set(i, v)
			f.chanElemInv(v, st.cond, st, false, i)
		}
	case token.NOT:
		f.set(i, T{not(f.val(i.X, st).S), "Bool", i.Type()})
	case token.SUB:
		x := f.val(i.X, st)
		f.set(i, T{"(- " + x.S + ")", x.Sort, i.Type()})
	case token.XOR:
		x := f.val(i.X, st)
		e.declFun("bvnot_i", []string{"Int"}, "Int")
		f.set(i, T{"(bvnot_i " + x.S + ")", "Int", i.Type()})
	default:
		f.set(i, f.freshVal("unop", i.Type(), st))
	}
}

func isUnsigned(t types.Type) bool {
	b, ok := t.Underlying().(*types.Basic)
	return ok && b.Info()&types.IsUnsigned != 0
}

func intBits(t types.Type) int {
	b, ok := t.Underlying().(*types.Basic)
	if !ok {
		return 0
	}
	switch b.Kind() {
	case types.Int8, types.Uint8:
		return 8
	case types.Int16, types.Uint16:
		return 16
	case types.Int32, types.Uint32:
		return 32
	case types.Int, types.Int64, types.Uint, types.Uint64, types.Uintptr:
		return 64
	}
	return 0
}

func (f *frame) binop(at ssa.Instruction, op token.Token, x, y T, xt types.Type, rt types.Type, st *State) T {
	e := f.e
	rs := e.sortOf(rt)
	mk := func(s string) T { return T{s, rs, rt} }
	switch op {
	case token.EQL, token.NEQ:
		var r string
		switch xt.Underlying().(type) {
		case *types.Interface:
			// nil comparison on type tag; otherwise structural
			if x.S == "(mk_iface 0 0)" {
				r = "(= (ityp " + y.S + ") 0)"
			} else if y.S == "(mk_iface 0 0)" {
				r = "(= (ityp " + x.S + ") 0)"
			} else {
				r = eq(x.S, y.S)
			}
		case *types.Slice:
			if x.S == "(mk_slice 0 0 0 0)" {
				r = "(= (sarr " + y.S + ") 0)"
			} else {
				r = "(= (sarr " + x.S + ") 0)"
			}
		default:
			if x.Sort == "Iface" && y.Sort != "Iface" || x.Sort != y.Sort {
				r = e.fresh("cmp", "Bool")
			} else {
				r = eq(x.S, y.S)
			}
		}
		if op == token.NEQ {
			r = not(r)
		}
		return mk(r)
	case token.LSS:
		return mk("(< " + x.S + " " + y.S + ")")
	case token.LEQ:
		return mk("(<= " + x.S + " " + y.S + ")")
	case token.GTR:
		return mk("(> " + x.S + " " + y.S + ")")
	case token.GEQ:
		return mk("(>= " + x.S + " " + y.S + ")")
	}
	if rs == "Bool" {
		switch op {
		case token.AND, token.LAND:
			return mk(and(x.S, y.S))
		case token.OR, token.LOR:
			return mk(or(x.S, y.S))
		}
	}
	if rs == "Real" {
		switch op {
		case token.ADD:
			return mk("(+ " + x.S + " " + y.S + ")")
		case token.SUB:
			return mk("(- " + x.S + " " + y.S + ")")
		case token.MUL:
			return mk("(* " + x.S + " " + y.S + ")")
		case token.QUO:
			return mk("(/ " + x.S + " " + y.S + ")")
		}
		return f.freshVal("fop", rt, st)
	}
	if b, ok := rt.Underlying().(*types.Basic); ok && b.Kind() == types.String || (ok && b.Kind() == types.UntypedString) {
		if op == token.ADD {
			e.declFun("strcat", []string{"Int", "Int"}, "Int")
			r := "(strcat " + x.S + " " + y.S + ")"
			e.assume("(= (strlen " + r + ") (+ (strlen " + x.S + ") (strlen " + y.S + ")))")
			return mk(r)
		}
	}
	bits := intBits(rt)
	wrap := func(s string) T {
		// machine arithmetic: results wrap; in int mode we keep the mathematical value
		// when it is in range and an unconstrained in-range value otherwise.
		if bits == 0 || bits == 64 {
			// A-INT: 64-bit arithmetic is treated as mathematical (no wrap-around)
			return mk(s)
		}
		if isUnsigned(rt) {
			// narrow unsigned arithmetic is exact modular arithmetic
			n := e.fresh("ar", "Int")
			e.assume(eq(n, "(mod "+s+" "+pow2(uint(bits))+")"))
			return mk(n)
		}
		n := e.fresh("ar", "Int")
		e.assume(implies(st.cond, f.facts(n, rt, st)))
		e.assume(implies(f.facts(s, rt, st), eq(n, s)))
		return mk(n)
	}
	switch op {
	case token.ADD:
		return wrap("(+ " + x.S + " " + y.S + ")")
	case token.SUB:
		return wrap("(- " + x.S + " " + y.S + ")")
	case token.MUL:
		return wrap("(* " + x.S + " " + y.S + ")")
	case token.QUO:
		f.safety(at, "div-zero", st, "(not (= "+y.S+" 0))")
		// Go truncates toward zero
		q := "(ite (>= " + x.S + " 0) (ite (> " + y.S + " 0) (div " + x.S + " " + y.S + ") (- (div " + x.S + " (- " + y.S + ")))) (ite (> " + y.S + " 0) (- (div (- " + x.S + ") " + y.S + ")) (div (- " + x.S + ") (- " + y.S + "))))"
		if isUnsigned(rt) {
			q = "(div " + x.S + " " + y.S + ")"
		}
		return wrap(q)
	case token.REM:
		f.safety(at, "div-zero", st, "(not (= "+y.S+" 0))")
		r := "(mod " + x.S + " " + y.S + ")"
		if !isUnsigned(rt) {
			r = "(ite (>= " + x.S + " 0) (mod " + x.S + " (ite (> " + y.S + " 0) " + y.S + " (- " + y.S + "))) (- (mod (- " + x.S + ") (ite (> " + y.S + " 0) " + y.S + " (- " + y.S + ")))))"
		}
		return mk(r)
	case token.SHL, token.SHR:
		// constant shifts are exact; others uninterpreted
		if c, ok := constInt(y.S); ok && c >= 0 && c < 64 {
			p := pow2(uint(c))
			if op == token.SHL {
				if isUnsigned(rt) && bits > 0 {
					return mk("(mod (* " + x.S + " " + p + ") " + pow2(uint(bits)) + ")")
				}
				return wrap("(* " + x.S + " " + p + ")")
			}
			return mk("(div " + x.S + " " + p + ")")
		}
		fn := "shl_i"
		if op == token.SHR {
			fn = "shr_i"
		}
		e.declFun(fn, []string{"Int", "Int"}, "Int")
		r := "(" + fn + " " + x.S + " " + y.S + ")"
		n := e.fresh("sh", "Int")
		e.assume(eq(n, r))
		e.assume(implies(st.cond, f.facts(n, rt, st)))
		return mk(n)
	case token.AND, token.OR, token.XOR, token.AND_NOT:
		fn := map[token.Token]string{token.AND: "and_i", token.OR: "or_i", token.XOR: "xor_i", token.AND_NOT: "andnot_i"}[op]
		e.declFun(fn, []string{"Int", "Int"}, "Int")
		r := "(" + fn + " " + x.S + " " + y.S + ")"
		n := e.fresh("bw", "Int")
		e.assume(eq(n, r))
		e.assume(implies(st.cond, f.facts(n, rt, st)))
		if op == token.AND {
			// x & c <= c for non-negative c
			e.assume(implies(and("(>= "+y.S+" 0)", "(>= "+x.S+" 0)"), and("(<= "+n+" "+y.S+")", "(<= "+n+" "+x.S+")", "(>= "+n+" 0)")))
			// masks: x & (2^k - 1) == x mod 2^k (x >= 0);  x & -(2^k) == x - x mod 2^k (two's complement, any x)
			if c, ok := constInt(y.S); ok {
				if c > 0 && c < 1<<62 && (c+1)&c == 0 {
					e.assume(implies(and(st.cond, "(>= "+x.S+" 0)"), eq(n, "(mod "+x.S+" "+fmt.Sprint(c+1)+")")))
				}
				if c < 0 && c > -(1<<62) && (-c)&(-c-1) == 0 && !isUnsigned(rt) {
					e.assume(implies(st.cond, eq(n, "(- "+x.S+" (mod "+x.S+" "+fmt.Sprint(-c)+"))")))
				}
			}
		}
		if op == token.OR {
			// (t * 2^k) | y == t * 2^k + y for 0 <= y < 2^k (the low k bits of the left operand are zero)
			for _, pr := range [][2]T{{x, y}, {y, x}} {
				if m := mulPow2Re.FindStringSubmatch(pr[0].S); m != nil {
					if c, ok := constInt(m[1]); ok && c > 0 && c&(c-1) == 0 {
						e.assume(implies(and(st.cond, "(<= 0 "+pr[1].S+")", "(< "+pr[1].S+" "+m[1]+")"), eq(n, "(+ "+pr[0].S+" "+pr[1].S+")")))
					}
				}
			}
			// max(x, y) <= x | y <= x + y for non-negative operands
			e.assume(implies(and("(>= "+y.S+" 0)", "(>= "+x.S+" 0)"), and("(>= "+n+" "+x.S+")", "(>= "+n+" "+y.S+")", "(<= "+n+" (+ "+x.S+" "+y.S+"))")))
		}
		if op == token.XOR {
			e.assume(implies(and("(>= "+y.S+" 0)", "(>= "+x.S+" 0)"), and("(>= "+n+" 0)", "(<= "+n+" (+ "+x.S+" "+y.S+"))")))
		}
		return mk(n)
	}
	return f.freshVal("binop", rt, st)
}

var mulPow2Re = regexp.MustCompile(`^\(\* .* (\d+)\)$`)

func constInt(s string) (int64, bool) {
	if strings.HasPrefix(s, "(- ") && strings.HasSuffix(s, ")") {
		if n, ok := constInt(s[3 : len(s)-1]); ok && n > 0 {
			return -n, true
		}
		return 0, false
	}
	var n int64
	if _, err := fmt.Sscanf(s, "%d", &n); err == nil && fmt.Sprint(n) == s {
		return n, true
	}
	return 0, false
}

func (f *frame) convert(i *ssa.Convert, st *State) {
	e := f.e
	x := f.val(i.X, st)
	from, to := i.X.Type().Underlying(), i.Type().Underlying()
	fb, fok := from.(*types.Basic)
	tb, tok := to.(*types.Basic)
	switch {
	case fok && tok && fb.Info()&types.IsInteger != 0 && tb.Info()&types.IsInteger != 0:
		// integer conversion: value preserved when representable, else wraps (modelled as arbitrary in range)
		n := e.fresh("cv", "Int")
		e.assume(implies(st.cond, f.facts(n, i.Type(), st)))
		e.assume(implies(f.facts(x.S, i.Type(), st), eq(n, x.S)))
		f.set(i, T{n, "Int", i.Type()})
	case fok && tok && fb.Info()&types.IsString != 0 && tb.Info()&types.IsString != 0:
		f.set(i, T{x.S, "Int", i.Type()})
	case fok && fb.Info()&types.IsString != 0:
		// string -> []byte / []rune : fresh array holding the bytes
		if sl, ok := to.(*types.Slice); ok {
			a := f.alloc(st)
			n := "(strlen " + x.S + ")"
			if bt, ok := sl.Elem().Underlying().(*types.Basic); ok && bt.Kind() == types.Uint8 {
				e.declFun("strbytes", []string{"Int"}, "(Array Int Int)")
				h, hs := f.elemHeap(sl.Elem())
				e.setHeap(st, h, hs, "(store "+e.H(st, h, hs)+" "+a+" (strbytes "+x.S+"))")
			} else {
				n = e.fresh("runes", "Int")
				e.assume("(>= " + n + " 0)")
			}
			f.set(i, T{"(mk_slice " + a + " 0 " + n + " " + n + ")", "Slice", i.Type()})
			return
		}
		f.set(i, f.freshVal("conv", i.Type(), st))
	case tok && tb.Info()&types.IsString != 0:
		// []byte -> string, int -> string
		if _, ok := from.(*types.Slice); ok {
			e.declFun("bytes2str", []string{"(Array Int Int)", "Int", "Int"}, "Int")
			h, hs := f.elemHeap(types.Typ[types.Uint8])
			r := "(bytes2str (select " + e.H(st, h, hs) + " (sarr " + x.S + ")) (soff " + x.S + ") (slen " + x.S + "))"
			n := e.fresh("str", "Int")
			e.assume(eq(n, r))
			e.assume("(= (strlen " + n + ") (slen " + x.S + "))")
			f.set(i, T{n, "Int", i.Type()})
			return
		}
		f.set(i, f.freshVal("conv", i.Type(), st))
	case x.Sort == e.sortOf(i.Type()) && x.Sort != "Int":
		f.set(i, T{x.S, x.Sort, i.Type()})
	default:
		if _, ok := to.(*types.Pointer); ok && x.Sort == "Int" {
			f.set(i, T{x.S, "Int", i.Type()})
			return
		}
		f.set(i, f.freshVal("conv", i.Type(), st))
	}
}

func (f *frame) slice(i *ssa.Slice, st *State) {
	e := f.e
	var lo, hi, mx string
	if i.Low != nil {
		lo = f.val(i.Low, st).S
	} else {
		lo = "0"
	}
	switch xt := i.X.Type().Underlying().(type) {
	case *types.Slice:
		s := f.val(i.X, st)
		if i.High != nil {
			hi = f.val(i.High, st).S
		} else {
			hi = "(slen " + s.S + ")"
		}
		if i.Max != nil {
			mx = f.val(i.Max, st).S
		} else {
			mx = "(scap " + s.S + ")"
		}
		f.safety(i, "slice-bounds", st, and("(<= 0 "+lo+")", "(<= "+lo+" "+hi+")", "(<= "+hi+" "+mx+")", "(<= "+mx+" (scap "+s.S+"))"))
		r := "(mk_slice (sarr " + s.S + ") (+ (soff " + s.S + ") " + lo + ") (- " + hi + " " + lo + ") (- " + mx + " " + lo + "))"
		n := e.fresh("sl", "Slice")
		e.assume(eq(n, r))
		f.set(i, T{n, "Slice", i.Type()})
	case *types.Pointer: // *array
		at := xt.Elem().Underlying().(*types.Array)
		p := f.val(i.X, st)
		f.safety(i, "nil-deref", st, "(not (= "+p.S+" 0))")
		ln := num(at.Len())
		if i.High != nil {
			hi = f.val(i.High, st).S
		} else {
			hi = ln
		}
		if i.Max != nil {
			mx = f.val(i.Max, st).S
		} else {
			mx = ln
		}
		f.safety(i, "slice-bounds", st, and("(<= 0 "+lo+")", "(<= "+lo+" "+hi+")", "(<= "+hi+" "+mx+")", "(<= "+mx+" "+ln+")"))
		if _, isField := f.addrs[i.X]; isField {
			// slicing an array that lives inside a struct field: contents not tracked
			e.note("slice of array-valued field in " + relName(f.fn) + ": contents untracked")
			a := f.alloc(st)
			f.set(i, T{"(mk_slice " + a + " " + lo + " (- " + hi + " " + lo + ") (- " + mx + " " + lo + "))", "Slice", i.Type()})
			return
		}
		f.set(i, T{"(mk_slice " + p.S + " " + lo + " (- " + hi + " " + lo + ") (- " + mx + " " + lo + "))", "Slice", i.Type()})
	default: // string
		s := f.val(i.X, st)
		if i.High != nil {
			hi = f.val(i.High, st).S
		} else {
			hi = "(strlen " + s.S + ")"
		}
		f.safety(i, "slice-bounds", st, and("(<= 0 "+lo+")", "(<= "+lo+" "+hi+")", "(<= "+hi+" (strlen "+s.S+"))"))
		e.declFun("substr", []string{"Int", "Int", "Int"}, "Int")
		r := "(substr " + s.S + " " + lo + " " + hi + ")"
		e.assume(implies(st.cond, "(= (strlen "+r+") (- "+hi+" "+lo+"))"))
		f.set(i, T{r, "Int", i.Type()})
	}
}

func (f *frame) implementsFn(it types.Type) string {
	fn := "impl_" + typeKey(it)
	f.e.declFun(fn, []string{"Int"}, "Bool")
	return fn
}

// assertType returns the condition that interface value x holds dynamic type t.
func (f *frame) hasType(x string, t types.Type) string {
	if _, ok := t.Underlying().(*types.Interface); ok {
		fn := f.implementsFn(t)
		// facts about known concrete types
		f.typeImplFacts(t, fn)
		return "(and (not (= (ityp " + x + ") 0)) (" + fn + " (ityp " + x + ")))"
	}
	return "(= (ityp " + x + ") " + fmt.Sprint(f.e.typeID(t)) + ")"
}

func (f *frame) typeImplFacts(it types.Type, fn string) {
	e := f.e
	iface := it.Underlying().(*types.Interface)
	// closed world (A-CLOSED): an interface declared in the module, with methods, whose only implementation among the
	// module's own types is one concrete type C, is implemented by C only (callers outside the module are not modelled)
	if key := "implclosed@" + fn; !e.declared[key+"@seen"] && isModuleType(it) && iface.NumMethods() > 0 {
		e.declared[key+"@seen"] = true
		var impls []types.Type
		for path, p := range e.db.w.ByPath {
			if !strings.HasPrefix(path, modPath) || p.Types == nil {
				continue
			}
			sc := p.Types.Scope()
			for _, n := range sc.Names() {
				tn, ok := sc.Lookup(n).(*types.TypeName)
				if !ok || tn.IsAlias() {
					continue
				}
				if _, isI := tn.Type().Underlying().(*types.Interface); isI {
					continue
				}
				if types.Implements(tn.Type(), iface) {
					impls = append(impls, tn.Type())
				} else if pt := types.NewPointer(tn.Type()); types.Implements(pt, iface) {
					impls = append(impls, pt)
				}
			}
		}
		if len(impls) == 1 {
			e.assumed["A-CLOSED: "+types.TypeString(it, nil)+" is implemented only by "+types.TypeString(impls[0], nil)] = true
			e.addDecl(key, fmt.Sprintf("(assert (forall ((t Int)) (! (=> (%s t) (= t %d)) :pattern ((%s t)))))", fn, e.typeID(impls[0]), fn))
		}
	}
	for id, ct := range e.knownTypes() {
		key := fmt.Sprintf("implfact@%s@%d", fn, id)
		if e.declared[key] {
			continue
		}
		v := "false"
		if types.Implements(ct, iface) {
			v = "true"
		}
		e.addDecl(key, fmt.Sprintf("(assert (= (%s %d) %s))", fn, id, v))
	}
}

func (f *frame) typeAssert(i *ssa.TypeAssert, st *State) {
	e := f.e
	x := f.val(i.X, st)
	ok := f.hasType(x.S, i.AssertedType)
	var v T
	if _, isI := i.AssertedType.Underlying().(*types.Interface); isI {
		if i.CommaOk {
			v = T{ite(ok, x.S, "(mk_iface 0 0)"), "Iface", i.AssertedType}
		} else {
			v = T{x.S, "Iface", i.AssertedType}
		}
	} else {
		srt := e.sortOf(i.AssertedType)
		u := f.unbox("(ival "+x.S+")", i.AssertedType)
		if i.CommaOk {
			v = T{ite(ok, u, e.zero(i.AssertedType)), srt, i.AssertedType}
		} else {
			v = T{u, srt, i.AssertedType}
		}
		n := e.fresh("ta", srt)
		e.assume(eq(n, v.S))
		e.assume(implies(and(st.cond, ok), f.facts(n, i.AssertedType, st)))
		v.S = n
	}
	if i.CommaOk {
		f.tuples[i] = []T{v, {ok, "Bool", types.Typ[types.Bool]}}
		return
	}
	f.safety(i, "type-assert", st, ok)
	f.set(i, v)
}

func (f *frame) next(i *ssa.Next, st *State) {
	e := f.e
	it := f.val(i.Iter, st)
	tup := i.Type().(*types.Tuple)
	ok := e.fresh("nextok", "Bool")
	if i.IsString || it.Go == nil {
		f.tuples[i] = []T{{ok, "Bool", types.Typ[types.Bool]}, f.freshVal("nk", tup.At(1).Type(), st), f.freshVal("nv", tup.At(2).Type(), st)}
		return
	}
	mt, isMap := it.Go.Underlying().(*types.Map)
	if !isMap {
		f.tuples[i] = []T{{ok, "Bool", types.Typ[types.Bool]}, f.freshVal("nk", tup.At(1).Type(), st), f.freshVal("nv", tup.At(2).Type(), st)}
		return
	}
	k := f.freshVal("nk", mt.Key(), st)
	val, inDom := f.mapLookup(T{it.S, "Int", it.Go}, k.S, st)
	e.assume(implies(and(st.cond, ok), inDom))
	if rg, isR := i.Iter.(*ssa.Range); isR {
		// each key is produced once; when the iteration ends every key has been produced
		ks := e.sortOf(mt.Key())
		vh, vs := f.visHeap(rg), "(Array "+ks+" Bool)"
		vis := e.H(st, vh, vs)
		e.assume(implies(and(st.cond, ok), not("(select "+vis+" "+k.S+")")))
		d, ds, _, _ := f.mapHeaps(mt)
		dom := "(select " + e.H(st, d, ds) + " " + it.S + ")"
		e.assume(implies(and(st.cond, not(ok)), "(forall ((vk "+ks+")) (! (=> (select "+dom+" vk) (select "+vis+" vk)) :pattern ((select "+vis+" vk))))"))
		e.setHeap(st, vh, vs, ite(ok, "(store "+vis+" "+k.S+" true)", vis))
	}
	vn := e.fresh("nv", e.sortOf(mt.Elem()))
	e.assume(eq(vn, val))
	e.assume(implies(st.cond, f.facts(vn, mt.Elem(), st)))
	v := T{vn, e.sortOf(mt.Elem()), mt.Elem()}
	if e.protSet[it.S] {
		f.protect(v)
	}
	f.tuples[i] = []T{{ok, "Bool", types.Typ[types.Bool]}, k, v}
}

func (f *frame) selectInstr(i *ssa.Select, st *State) {
	e := f.e
	idx := e.fresh("selidx", "Int")
	lo := "0"
	if !i.Blocking {
		lo = "(- 1)"
	}
	e.assume(implies(st.cond, and("(<= "+lo+" "+idx+")", "(< "+idx+" "+fmt.Sprint(len(i.States))+")")))
	res := []T{{idx, "Int", types.Typ[types.Int]}, {e.fresh("selok", "Bool"), "Bool", types.Typ[types.Bool]}}
	for k, s := range i.States {
		ch := f.val(s.Chan, st)
		chosen := "(= " + idx + " " + fmt.Sprint(k) + ")"
		if s.Dir == types.SendOnly {
			sv := f.val(s.Send, st)
			// the value offered in a send case must satisfy the channel's element invariant
			f.chanElemInv(sv, st.cond, st, true, i)
			// a send case on a closed channel is ready and panics when chosen
			if tags := f.root.safetyTags("send-closed-chan"); tags != nil {
				a, pos := f.anchor(i)
				e.addOb("send-closed-chan", a, tags, pos, and(st.cond, "(not (= "+ch.S+" 0))"), not(f.chClosed(ch.S, st)))
			}
			// a nil channel is never ready
			e.assume(implies(and(st.cond, chosen), "(not (= "+ch.S+" 0))"))
		} else {
			el := s.Chan.Type().Underlying().(*types.Chan).Elem()
			rv := f.freshVal("selrecv", el, st)
			res = append(res, rv)
			f.chanElemInv(rv, and(st.cond, chosen), st, false, i)
			e.assume(implies(and(st.cond, chosen), "(not (= "+ch.S+" 0))"))
		}
	}
	f.tuples[i] = res
}

// eaTerm is the first-class value of an element address; it is never nil and belongs to its array.
func (f *frame) eaTerm(arr, idx string) string {
	e := f.e
	e.declFun("ea", []string{"Int", "Int"}, "Int")
	e.declFun("owner", []string{"Int"}, "Int")
	// element addresses are injective in (array, index)
	e.declFun("ea_idx", []string{"Int"}, "Int")
	e.declFun("ea_arr", []string{"Int"}, "Int")
	t := "(ea " + arr + " " + idx + ")"
	if !strings.Contains(t, "!q") {
		e.addDecl("eafact@"+t, "(assert (and (not (= "+t+" 0)) (= (owner "+t+") (owner "+arr+")) (= (ea_idx "+t+") "+idx+") (= (ea_arr "+t+") "+arr+")))")
	} else {
		// an address under a quantifier: the general axiom (kept out of queries that do not need it -- it costs
		// the solvers their models)
		e.addDecl("ea-inj", "(assert (forall ((a Int) (i Int)) (! (and (= (ea_idx (ea a i)) i) (= (ea_arr (ea a i)) a)) :pattern ((ea a i)))))")
	}
	return t
}

// chanElemInv assumes (receive) or requires (send) the declared element invariant of the channel's element type.
func (f *frame) chanElemInv(v T, cond string, st *State, send bool, at ssa.Instruction) {
	e := f.e
	if v.Go == nil {
		return
	}
	k := types.TypeString(v.Go, nil)
	inv := e.db.chanelem[k]
	if inv == nil {
		return
	}
	env := &specEnv{f: f, vars: map[string]T{"elem": v}, cur: st, old: st, pkg: e.db.chanelemP[k], nbound: 1}
	t, err := env.evalBool(inv)
	if err != nil {
		e.note("chanelem eval: " + err.Error())
		return
	}
	if send {
		an, pos := f.anchor(at)
		e.addOb("chanelem-send", inv.Text+"|"+an, inv.Tags, pos, cond, t)
		return
	}
	e.assume(implies(cond, t))
}

func (f *frame) visHeap(r *ssa.Range) string {
	return "VIS_" + sanitize(relName(f.fn)) + "_" + r.Name()
}

var globalNonNilCache = map[*ssa.Global]bool{}

// globalInitNonNil: g has pointer type, is stored to exactly once in its package, by the package initialiser, and the
// stored value is an allocation or the result of a constructor known never to return nil.
func globalInitNonNil(g *ssa.Global) bool {
	if v, ok := globalNonNilCache[g]; ok {
		return v
	}
	res := false
	defer func() { globalNonNilCache[g] = res }()
	if _, isPtr := g.Type().Underlying().(*types.Pointer).Elem().Underlying().(*types.Pointer); !isPtr || g.Pkg == nil {
		return false
	}
	nonNilCtor := map[string]bool{
		"github.com/cronokirby/saferith.ModulusFromNat":   true,
		"github.com/cronokirby/saferith.ModulusFromBytes": true,
		"github.com/cronokirby/saferith.ModulusFromUint64": true,
	}
	stores := 0
	ok := false
	for _, m := range g.Pkg.Members {
		fn, isFn := m.(*ssa.Function)
		if !isFn {
			continue
		}
		var fns []*ssa.Function
		fns = append(fns, fn)
		fns = append(fns, fn.AnonFuncs...)
		for _, f := range fns {
			for _, b := range f.Blocks {
				for _, ins := range b.Instrs {
					st, isSt := ins.(*ssa.Store)
					if !isSt || st.Addr != ssa.Value(g) {
						continue
					}
					stores++
					if f.Name() != "init" {
						return false
					}
					switch x := st.Val.(type) {
					case *ssa.Alloc:
						ok = true
					case *ssa.Call:
						if c := x.Call.StaticCallee(); c != nil && nonNilCtor[c.String()] {
							ok = true
						}
					}
				}
			}
		}
	}
	// methods of the package's types may also store to the global
	for _, m := range g.Pkg.Members {
		tn, isT := m.(*ssa.Type)
		if !isT {
			continue
		}
		for _, t := range []types.Type{tn.Type(), types.NewPointer(tn.Type())} {
			ms := g.Pkg.Prog.MethodSets.MethodSet(t)
			for k := 0; k < ms.Len(); k++ {
				f := g.Pkg.Prog.MethodValue(ms.At(k))
				if f == nil {
					continue
				}
				for _, b := range f.Blocks {
					for _, ins := range b.Instrs {
						if st, isSt := ins.(*ssa.Store); isSt && st.Addr == ssa.Value(g) {
							return false
						}
					}
				}
			}
		}
	}
	res = stores == 1 && ok
	return res
}

// ghostsDeclared: a call executed in an inlined helper updates the root's call ghosts when the root declared them
// (the names reachable through its static callees start at zero, see sameCallees).
func (f *frame) ghostsDeclared(i *ssa.Call) bool {
	cname := ""
	if sc := i.Common().StaticCallee(); sc != nil {
		cname = sc.Name()
	} else if i.Common().IsInvoke() {
		cname = i.Common().Method.Name()
	}
	if cname == "" {
		return false
	}
	_, ok := f.e.heapSort["COUNT_"+cname]
	return ok
}
