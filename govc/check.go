package main

import (
	"encoding/json"
	"flag"
	"fmt"
	"os"
	"path/filepath"
	"sort"
	"strconv"
	"strings"
	"sync"
	"time"
)

type KnownFinding struct {
	Property   string `json:"property"`
	Obligation string `json:"obligation"` // exact obligation name
	Status     string `json:"status"`     // "open" or "fixed"
	What       string `json:"what"`
	Commit     string `json:"commit,omitempty"`
	Replay     string `json:"replay,omitempty"`
}

func loadKnown() []KnownFinding {
	var ks []KnownFinding
	b, err := os.ReadFile(filepath.Join(verifDir(), "known_findings.json"))
	if err != nil {
		return nil
	}
	var doc struct {
		Findings []KnownFinding `json:"findings"`
	}
	if json.Unmarshal(b, &doc) == nil {
		ks = doc.Findings
	}
	return ks
}

type propRun struct {
	prop     string
	tier     string
	seed     int
	results  []*FnResult
	obs      []*Obligation
	t0       time.Time
	lemmas   []*LemmaResult
	engineEr []string
}

var inlineKinds = map[string]bool{"post": true, "inv-entry": true, "inv-step": true, "assert": true, "assert-anchor-missing": true}

func obForProp(ob *Obligation, prop string) bool {
	if len(ob.Tags) == 0 {
		return true
	}
	return hasTag(ob.Tags, prop)
}

// rootsFor returns the contracts (with bodies) whose clauses mention the property.
func rootsFor(db *ContractDB, prop string) []*Contract {
	var cs []*Contract
	for _, c := range db.byFunc {
		if c.Trusted || c.Fn == nil || len(c.Fn.Blocks) == 0 {
			continue
		}
		if c.Inline {
			// inline helpers are verified in the context of each caller; on their own only for
			// postconditions that carry the property tag
			own := false
			for _, en := range c.Ensures {
				if hasTag(en.Tags, prop) {
					own = true
				}
			}
			if !own {
				continue
			}
		}
		if contractProps(c)[prop] {
			cs = append(cs, c)
			continue
		}
		// functions touching guarded structs tagged with the property
		if c.Fn.Pkg != nil {
			for sk, tags := range db.guardTags {
				if hasTag(tags, prop) && strings.HasPrefix(sk, "S_"+sanitize(pkgRel(c.Fn.Pkg.Pkg))+"_") && usesGuarded(c, sk) {
					cs = append(cs, c)
					break
				}
			}
		}
	}
	sort.Slice(cs, func(i, j int) bool { return cs[i].Rel < cs[j].Rel })
	return cs
}

func usesGuarded(c *Contract, sk string) bool {
	return false // guarded functions are all tagged explicitly for now
}

func cmdCheck(args []string) int {
	if len(args) == 0 {
		usage()
	}
	prop := args[0]
	fs := flag.NewFlagSet("check", flag.ExitOnError)
	tier := fs.String("tier", "", "quick|thorough")
	workers := fs.Int("j", 12, "parallel solver processes")
	_ = fs.Parse(args[1:])
	if *tier == "" {
		*tier = os.Getenv("VERIF_TIER")
	}
	if *tier != "thorough" {
		*tier = "quick"
	}
	seed, _ := strconv.Atoi(os.Getenv("VERIF_SEED"))
	t0 := time.Now()
	w, db := loadAll()
	roots := rootsFor(db, prop)
	lemmas := lemmasFor(db, prop)
	lemmas = append(lemmas, sideCondsFor(db, prop)...)
	lemmas = append(lemmas, leanLemmasFor(prop)...)
	if *tier == "thorough" {
		lemmas = append(lemmas, witnessChecksFor(w, roots)...)
	}
	if len(roots) == 0 && len(lemmas) == 0 {
		fmt.Fprintf(os.Stderr, "govc: no contract mentions property %s\n", prop)
		return 2
	}
	timeout := 10000
	if *tier == "thorough" {
		timeout = 60000
	}
	outDir := filepath.Join(outRoot(), "replay", prop)
	_ = os.RemoveAll(outDir)
	run := &propRun{prop: prop, tier: *tier, seed: seed, t0: t0}
	run.results = make([]*FnResult, len(roots))
	var wg sync.WaitGroup
	sem := make(chan struct{}, *workers)
	for i, ct := range roots {
		i, ct := i, ct
		wg.Add(1)
		sem <- struct{}{}
		go func() {
			defer wg.Done()
			defer func() { <-sem }()
			run.results[i] = genVCs(w, db, ct)
		}()
	}
	wg.Wait()
	for _, r := range run.results {
		r := r
		// keep only obligations relevant to this property (others are checked under their own property)
		if r.Enc != nil {
			inlineRoot := false
			if ct := db.byFunc[r.key]; ct != nil && ct.Inline {
				inlineRoot = true // an inline helper on its own: only its clauses tagged with the property
			}
			var items []item
			for _, it := range r.Enc.items {
				if it.ob != nil && it.ob.Kind != "cover" && (!obForProp(it.ob, prop) || (inlineRoot && (!hasTag(it.ob.Tags, prop) || !inlineKinds[it.ob.Kind]))) {
					continue
				}
				items = append(items, it)
			}
			r.Enc.items = items
			var obs []*Obligation
			for _, ob := range r.Obs {
				if ob.Kind == "cover" || (obForProp(ob, prop) && !(inlineRoot && (!hasTag(ob.Tags, prop) || !inlineKinds[ob.Kind]))) {
					obs = append(obs, ob)
				}
			}
			r.Obs = obs
		}
		wg.Add(1)
		sem <- struct{}{}
		go func() {
			defer wg.Done()
			defer func() { <-sem }()
			solveFn(r, solveOpts{timeoutMs: timeout, workers: 2, keepDir: filepath.Join(outRoot(), "failed", prop)})
		}()
	}
	for _, l := range lemmas {
		l := l
		wg.Add(1)
		sem <- struct{}{}
		go func() {
			defer wg.Done()
			defer func() { <-sem }()
			solveLemma(l, timeout, *tier == "thorough")
		}()
	}
	wg.Wait()
	// rescue pass: an obligation left undecided while all cores were busy (a timeout is wall-clock) is run again on
	// its own, one at a time, with a longer budget, before it is reported; a refuted obligation (sat) is final
	rescued := 0
	knownOpen := map[string]bool{}
	for _, k := range loadKnown() {
		if k.Property == prop && k.Status == "open" {
			knownOpen[k.Obligation] = true
		}
	}
	for _, r := range run.results {
		if r == nil || r.Enc == nil || r.Err != "" {
			continue
		}
		for _, ob := range r.Obs {
			if ob.Status == "unknown" && ob.Kind != "cover" && rescued < 10 && !knownOpen[ob.Name] {
				rescued++
				ob.Stage = "rescue"
				retry(r, ob, solveOpts{timeoutMs: 3 * timeout, workers: 1, keepDir: filepath.Join(outRoot(), "failed", prop)})
			}
		}
	}
	run.lemmas = lemmas
	return report(run, w, db)
}

func report(run *propRun, w *World, db *ContractDB) int {
	prop := run.prop
	known := loadKnown()
	openKnown := map[string]KnownFinding{}
	for _, k := range known {
		if k.Property == prop && k.Status == "open" {
			openKnown[k.Obligation] = k
		}
	}
	outDir := filepath.Join(outRoot(), "replay", prop)
	nOb, nDis, nViol, nKnown := 0, 0, 0, 0
	var fns []string
	var samples []map[string]interface{}
	perSolver := map[string]int{}
	solverSecs := 0.0
	assumed := map[string]bool{}
	notes := map[string]bool{}
	engineErr := false
	var unclaimed []string
	lateDecided := []string{} // obligations not decided by the primary solver in the function's script (stability watch list)
	seenKnown := map[string]bool{}
	var violLines []string
	replays := 0
	handle := func(ob *Obligation, script func() string) {
		nOb++
		if ob.Status == "discharged" {
			nDis++
			perSolver[ob.Solver]++
			solverSecs += ob.Secs
			if ob.Stage != "" && ob.Kind != "cover" {
				lateDecided = append(lateDecided, fmt.Sprintf("%s [%s, %s, %.1fs]", ob.Name, ob.Stage, ob.Solver, ob.Secs))
			}
			if len(samples) < 6 && ob.Kind != "cover" {
				samples = append(samples, map[string]interface{}{"obligation": ob.Name, "kind": ob.Kind, "pos": ob.Pos,
					"status": ob.Status, "solver": ob.Solver, "secs": round3(ob.Secs), "goal_bytes": len(ob.Goal)})
			}
			return
		}
		if k, ok := openKnown[ob.Name]; ok {
			nKnown++
			seenKnown[ob.Name] = true
			fmt.Printf("KNOWN-FINDING: property=%s %s (obligation %s)\n", prop, k.What, ob.Name)
			return
		}
		nViol++
		_ = os.MkdirAll(outDir, 0o755)
		path := filepath.Join(outDir, shortName(ob.Name)+".json")
		rep := map[string]interface{}{"property": prop, "obligation": ob.Name, "kind": ob.Kind, "function": ob.Fn, "pos": ob.Pos,
			"status": ob.Status, "solver": ob.Solver, "solver_output": ob.Model, "goal": ob.Goal}
		suffix := " no-failing-input-found"
		replays++
		if ob.Kind == "witness" {
			suffix = ""
			rep["replayed"] = "the scenario fails on the tree under check (output in solver_output)"
		} else if replays > 12 {
			// (a change that breaks many obligations at once: the first dozen get a replay attempt, the rest only the solver output)
			rep["replay_attempt"] = "replay budget of 12 attempts per check used up"
		} else if ok, detail := tryReplay(w, ob, rep); ok {
			suffix = ""
			rep["replayed"] = detail
		} else if detail != "" {
			rep["replay_attempt"] = detail
		}
		if script != nil {
			sp := strings.TrimSuffix(path, ".json") + ".smt2"
			_ = os.WriteFile(sp, []byte(script()), 0o644)
			rep["smt_script"] = sp
		}
		b, _ := json.MarshalIndent(rep, "", " ")
		_ = os.WriteFile(path, b, 0o644)
		violLines = append(violLines, fmt.Sprintf("VIOLATION property=%s replay=%s obligation=%q status=%s%s", prop, path, ob.Name, ob.Status, suffix))
	}
	for _, r := range run.results {
		if r.Err != "" {
			fmt.Fprintln(os.Stderr, "govc: ENGINE ERROR:", r.Err)
			engineErr = true
			continue
		}
		fns = append(fns, r.Rel)
		for _, a := range r.Assumed {
			assumed[a] = true
		}
		for _, n := range r.Notes {
			notes[r.Rel+": "+n] = true
		}
		unclaimed = append(unclaimed, r.Unclaimed...)
		r := r
		for _, ob := range r.Obs {
			ob := ob
			handle(ob, func() string { return r.Enc.single(ob) })
		}
	}
	for _, l := range run.lemmas {
		if l.Err != "" {
			fmt.Fprintln(os.Stderr, "govc: ENGINE ERROR:", l.Err)
			engineErr = true
			continue
		}
		l := l
		for _, a := range l.Assumes {
			assumed[a] = true
		}
		handle(l.Ob, func() string { return l.Script })
	}
	// known findings that no longer fail are reported (informational)
	for name, k := range openKnown {
		if !seenKnown[name] {
			fmt.Printf("note: known finding no longer reproduces: %s (%s)\n", name, k.What)
		}
	}
	for _, l := range violLines {
		fmt.Println(l)
	}
	// evidence
	var assumptions []string
	for a := range assumed {
		assumptions = append(assumptions, a)
	}
	sort.Strings(assumptions)
	assumptions = append(assumptionCatalogue(db, run, fns), assumptions...)
	var noteList []string
	for n := range notes {
		noteList = append(noteList, n)
	}
	sort.Strings(noteList)
	var lemmaNames []string
	for _, l := range run.lemmas {
		lemmaNames = append(lemmaNames, l.Name)
	}
	ev := map[string]interface{}{
		"property_id": prop, "tier": run.tier, "seed": run.seed, "level": "proof",
		"coverage": map[string]interface{}{
			"obligations": nOb - nKnown, "discharged": nDis,
			"obligations_matching_open_known_findings": nKnown,
			"checker_cmd":              "z3-new -in -t:<ms> (z3 5.1.0) | z3 -in (4.8.12) | cvc5 --incremental (1.0.3); first definite answer, retries standalone on the others; lemmas/lean/*.lean by lean 4 (kernel); side conditions by an SSA scan",
			"trusted_base":             trustedBase(db, fns),
			"functions_under_contract": fns,
			"lemmas":                   lemmaNames,
			"per_solver_discharged":    perSolver,
			"solver_seconds":           round3(solverSecs),
			"known_findings_reported":  nKnown,
			"undischarged":             nViol,
			"samples":                  samples,
			"engine_notes":             noteList,
			"unproved_not_claimed":     unclaimed,
			"decided_only_standalone":  lateDecided,
			"explanation":              "obligations generated by govc from the go/ssa form of /repo's working tree (build tag verif) for the functions under contract; see DESIGN.md",
		},
		"assumptions": assumptions,
		"wall_s":      round3(time.Since(run.t0).Seconds()),
		"violations":  nViol,
	}
	if os.Getenv("GOVC_NOEVIDENCE") == "" {
		_ = os.MkdirAll(filepath.Join(verifDir(), "evidence"), 0o755)
		b, _ := json.MarshalIndent(ev, "", " ")
		_ = os.WriteFile(filepath.Join(verifDir(), "evidence", prop+".json"), b, 0o644)
	}
	fmt.Printf("%s [%s]: %d functions, %d lemmas, %d obligations, %d discharged, %d known findings, %d violations, %.1fs\n",
		prop, run.tier, len(fns), len(run.lemmas), nOb, nDis, nKnown, nViol, time.Since(run.t0).Seconds())
	if engineErr {
		return 2
	}
	if nViol > 0 {
		return 1
	}
	if nOb == 0 {
		fmt.Fprintln(os.Stderr, "govc: no obligations generated (vacuous run)")
		return 2
	}
	return 0
}

func round3(x float64) float64 {
	return float64(int(x*1000+0.5)) / 1000
}

// trustedBase lists the trusted specs and interface contracts the functions may rely on.
func trustedBase(db *ContractDB, fns []string) []string {
	var out []string
	for _, c := range db.byFunc {
		if c.Trusted && c.Fn != nil {
			out = append(out, "trusted spec: "+c.Key)
		}
	}
	for k := range db.byIface {
		out = append(out, "interface contract (implementations not all checked): "+k)
	}
	for k := range db.byFuncType {
		out = append(out, "function-type contract: "+k)
	}
	for _, c := range db.byFunc {
		for _, s := range c.Summary {
			out = append(out, "summary (assumed, not checked against the body) on "+c.Rel+": "+s.Text)
		}
	}
	for _, a := range db.axioms {
		out = append(out, "axiom: "+a.Text)
	}
	sort.Strings(out)
	return out
}

func assumptionCatalogue(db *ContractDB, run *propRun, fns []string) []string {
	return []string{
		"A-INT: 64-bit integer arithmetic is treated as mathematical; narrower integer types wrap (modelled as an arbitrary in-range value on overflow)",
		"A-OWN: objects reachable only through fields of a package's own struct types are not modified by code outside that package unless a reference is handed over; channel state changes only through channel operations, declared 'modifies chans', or callees handed a channel",
		"A-SC: mutexes give mutual exclusion; verification of each method is sequential under the lock with the lock invariant assumed at Lock and proved at Unlock",
		"A-EXT: external functions without a trusted spec do not panic and modify only state not owned by the calling package",
		"go/ssa (golang.org/x/tools v0.29.0) is a faithful translation of the Go source; goroutine bodies and panic/recover control flow are outside the verified subset",
	}
}

func cmdAudit() {
	_, db := loadAll()
	for _, l := range trustedBase(db, nil) {
		fmt.Println(l)
	}
}

// shortName gives a file-system friendly, stable, bounded-length name for an obligation.
func shortName(name string) string {
	s := sanitize(name)
	h := fnv32(name)
	if len(s) > 80 {
		s = s[:80]
	}
	return fmt.Sprintf("%s_%08x", s, h)
}

func fnv32(s string) uint32 {
	h := uint32(2166136261)
	for i := 0; i < len(s); i++ {
		h ^= uint32(s[i])
		h *= 16777619
	}
	return h
}
