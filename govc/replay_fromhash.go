package main

import (
	"crypto/sha256"
	"fmt"
	"os"
	"os/exec"
	"path/filepath"
	"regexp"
	"strings"
	"sync"
)

func init() {
	replayDrivers = append(replayDrivers, replayFromHash)
}

// replayFromHash (driver R1): the model's digest length is turned into a call of the real curve.FromHash,
// compared with an independent math/big computation of the SEC 1 truncation.
func replayFromHash(w *World, ob *Obligation, rep map[string]interface{}) (bool, string) {
	if ob.Fn != "pkg/math/curve:FromHash" || ob.Kind != "post" {
		return false, ""
	}
	n := modelInt(ob.Model, `\(define-fun p_h \(\) Slice\s*\(mk_slice \S+ \S+ (\d+)`)
	lens := []int{20, 32, 33, 48, 64}
	if n > 0 && n < 4096 {
		lens = append([]int{n}, lens...)
	}
	var ls []string
	for _, l := range lens {
		ls = append(ls, fmt.Sprint(l))
	}
	src := `package curve

import (
	"math/big"
	"testing"
)

func TestGovcReplayFromHash(t *testing.T) {
	group := Secp256k1{}
	q := group.Order().Big()
	for _, l := range []int{` + strings.Join(ls, ", ") + `} {
		h := make([]byte, l)
		for i := range h {
			h[i] = byte(0xa5 ^ (i * 37))
		}
		h[0] |= 0x80
		k := l
		if k > 32 {
			k = 32
		}
		want := new(big.Int).SetBytes(h[:k])
		if ex := 8*k - 256; ex > 0 {
			want.Rsh(want, uint(ex))
		}
		want.Mod(want, q)
		gotBytes, _ := FromHash(group, h).MarshalBinary()
		got := new(big.Int).SetBytes(gotBytes)
		if got.Cmp(want) != 0 {
			t.Errorf("digest length %d: FromHash = %x, SEC1 truncation = %x", l, got, want)
		}
	}
}
`
	return runOverlayTest(rep, "pkg/math/curve", "zz_govc_replay_test.go", src, "TestGovcReplayFromHash")
}

func modelInt(model, re string) int {
	m := regexp.MustCompile(re).FindStringSubmatch(model)
	if m == nil {
		return -1
	}
	var n int
	fmt.Sscanf(m[1], "%d", &n)
	return n
}

// runOverlayTest runs an in-package test against /repo's working tree through a go test overlay
// (nothing is written into the repository). It returns true when the test FAILS (violation reproduced).
// results of overlay tests already run in this process (several obligations often share one witness)
var (
	overlayMu    sync.Mutex
	overlayCache = map[string]overlayResult{}
)

type overlayResult struct {
	ok     bool
	detail string
	rep    map[string]interface{}
}

func runOverlayTest(rep map[string]interface{}, pkgDir, fileName, src, testName string) (bool, string) {
	key := pkgDir + "|" + fileName + "|" + testName + "|" + fmt.Sprintf("%x", sha256.Sum256([]byte(src)))
	overlayMu.Lock()
	defer overlayMu.Unlock()
	if r, ok := overlayCache[key]; ok {
		for k, v := range r.rep {
			rep[k] = v
		}
		return r.ok, r.detail
	}
	sub := map[string]interface{}{}
	ok, detail := runOverlayTestOnce(sub, pkgDir, fileName, src, testName)
	overlayCache[key] = overlayResult{ok, detail, sub}
	for k, v := range sub {
		rep[k] = v
	}
	return ok, detail
}

func runOverlayTestOnce(rep map[string]interface{}, pkgDir, fileName, src, testName string) (bool, string) {
	dir := filepath.Join(outRoot(), "replay", "src")
	_ = os.MkdirAll(dir, 0o755)
	srcPath := filepath.Join(dir, sanitize(pkgDir)+"_"+fileName)
	if err := os.WriteFile(srcPath, []byte(src), 0o644); err != nil {
		return false, "cannot write replay source: " + err.Error()
	}
	ov := filepath.Join(dir, sanitize(pkgDir)+"_overlay.json")
	_ = os.WriteFile(ov, []byte(fmt.Sprintf(`{"Replace": {%q: %q}}`, filepath.Join(repoDir(), pkgDir, fileName), srcPath)), 0o644)
	cmd := exec.Command("go", "test", "-overlay", ov, "-vet=off", "-count=1", "-timeout", "120s", "-run", testName, "./"+pkgDir+"/")
	cmd.Dir = repoDir()
	cmd.Env = append(os.Environ(), "GOFLAGS=-mod=mod", "GOPROXY=off", "GOSUMDB=off", "GOTOOLCHAIN=local")
	out, err := cmd.CombinedOutput()
	rep["replay_source"] = srcPath
	rep["replay_cmd"] = strings.Join(cmd.Args, " ") + "   (in " + repoDir() + ")"
	full := string(out)
	o := full
	if len(o) > 4000 {
		// keep the beginning (the failing assertion or panic message) and the end (the verdict)
		o = o[:3000] + "\n...\n" + o[len(o)-900:]
	}
	rep["replay_output"] = o
	if err != nil && strings.Contains(full, "FAIL") && !strings.Contains(full, "[build failed]") {
		return true, "replay test " + testName + " fails on the real code"
	}
	return false, "replay test did not reproduce a failure"
}
