package main

import (
	"fmt"
	"go/ast"
	"go/token"
	"go/types"
	"os"
	"sort"
	"strings"
	"sync"

	"golang.org/x/tools/go/packages"
	"golang.org/x/tools/go/ssa"
	"golang.org/x/tools/go/ssa/ssautil"
)

const modPath = "github.com/taurusgroup/multi-party-sig"

// World is everything loaded from /repo's working tree for one run.
type World struct {
	Fset    *token.FileSet
	Pkgs    []*packages.Package
	Prog    *ssa.Program
	SSAPkgs []*ssa.Package
	ByPath  map[string]*packages.Package
	// all functions (incl. methods) by their String() name
	Funcs map[string]*ssa.Function
	// source file lines cache
	lines map[string][]string
}

func repoDir() string {
	if d := os.Getenv("GOVC_REPO"); d != "" {
		return d
	}
	return "/repo"
}

func loadWorld() (*World, error) {
	fset := token.NewFileSet()
	cfg := &packages.Config{
		Mode:       packages.LoadAllSyntax,
		Dir:        repoDir(),
		Fset:       fset,
		BuildFlags: []string{"-tags=verif"},
		Env: append(os.Environ(), "GOFLAGS=-mod=mod", "GOPROXY=off", "GOSUMDB=off",
			"GOTOOLCHAIN=local"),
	}
	pkgs, err := packages.Load(cfg, "./...")
	if err != nil {
		return nil, err
	}
	nerr := 0
	packages.Visit(pkgs, nil, func(p *packages.Package) {
		for _, e := range p.Errors {
			if strings.HasPrefix(p.PkgPath, modPath) {
				fmt.Fprintf(os.Stderr, "load error: %s: %v\n", p.PkgPath, e)
				nerr++
			}
		}
	})
	if nerr > 0 {
		return nil, fmt.Errorf("%d load errors in module packages", nerr)
	}
	prog, spkgs := ssautil.AllPackages(pkgs, ssa.InstantiateGenerics|ssa.GlobalDebug)
	prog.Build()
	w := &World{Fset: fset, Pkgs: pkgs, Prog: prog, SSAPkgs: spkgs,
		ByPath: map[string]*packages.Package{}, Funcs: map[string]*ssa.Function{},
		lines: map[string][]string{}}
	packages.Visit(pkgs, nil, func(p *packages.Package) { w.ByPath[p.PkgPath] = p })
	for fn := range ssautil.AllFunctions(prog) {
		w.Funcs[fn.String()] = fn
	}
	return w, nil
}

// relName gives the contract key of a function: "pkgpath-relative-to-module:RelString".
// e.g. "pkg/protocol:(*MultiHandler).Stop", "pkg/pool:worker".
func relName(fn *ssa.Function) string {
	if fn.Pkg == nil {
		// synthetic wrappers, instantiations
		if o := fn.Origin(); o != nil && o != fn {
			return relName(o) + "[" + fn.Name() + "]"
		}
		return fn.String()
	}
	p := fn.Pkg.Pkg.Path()
	rp := strings.TrimPrefix(strings.TrimPrefix(p, modPath), "/")
	if rp == p { // external
		return fn.String()
	}
	return rp + ":" + fn.RelString(fn.Pkg.Pkg)
}

func (w *World) funcByRel(rel string) *ssa.Function {
	// rel is "pkg/protocol:(*MultiHandler).Stop" or a full String() name
	if i := strings.Index(rel, ":"); i >= 0 && !strings.Contains(rel[:i], "(") {
		pkgRel, name := rel[:i], rel[i+1:]
		full := modPath
		if pkgRel != "" {
			full += "/" + pkgRel
		}
		// name forms: "Foo", "(*T).M", "(T).M", "Foo$1"
		var s string
		switch {
		case strings.HasPrefix(name, "(*"):
			s = "(*" + full + "." + name[2:]
		case strings.HasPrefix(name, "("):
			s = "(" + full + "." + name[1:]
		default:
			s = full + "." + name
		}
		return w.Funcs[s]
	}
	return w.Funcs[rel]
}

var lineMu sync.Mutex

func (w *World) srcLine(pos token.Pos) string {
	if !pos.IsValid() {
		return ""
	}
	lineMu.Lock()
	defer lineMu.Unlock()
	p := w.Fset.Position(pos)
	ls, ok := w.lines[p.Filename]
	if !ok {
		b, err := os.ReadFile(p.Filename)
		if err == nil {
			ls = strings.Split(string(b), "\n")
		}
		w.lines[p.Filename] = ls
	}
	if p.Line-1 < len(ls) && p.Line >= 1 {
		return strings.TrimSpace(ls[p.Line-1])
	}
	return ""
}

// contractComments returns the //@ lines of all files of the package whose name
// ends in _verif.go, in order, with the package they belong to.
func (w *World) contractLines(p *packages.Package) []srcLine {
	var out []srcLine
	for _, f := range p.Syntax {
		fn := w.Fset.Position(f.Pos()).Filename
		if !strings.HasSuffix(fn, "_verif.go") {
			continue
		}
		out = append(out, commentLines(w.Fset, f)...)
	}
	return out
}

type srcLine struct {
	File string
	Line int
	Text string
}

func commentLines(fset *token.FileSet, f *ast.File) []srcLine {
	var out []srcLine
	for _, cg := range f.Comments {
		for _, c := range cg.List {
			t := c.Text
			if !strings.HasPrefix(t, "//@") {
				continue
			}
			p := fset.Position(c.Pos())
			out = append(out, srcLine{p.Filename, p.Line, strings.TrimSpace(t[3:])})
		}
	}
	sort.SliceStable(out, func(i, j int) bool {
		if out[i].File != out[j].File {
			return out[i].File < out[j].File
		}
		return out[i].Line < out[j].Line
	})
	return out
}

func modulePkgs(w *World) []*packages.Package {
	var out []*packages.Package
	for path, p := range w.ByPath {
		if strings.HasPrefix(path, modPath) {
			out = append(out, p)
		}
	}
	sort.Slice(out, func(i, j int) bool { return out[i].PkgPath < out[j].PkgPath })
	return out
}

func isModuleType(t types.Type) bool {
	if n, ok := t.(*types.Named); ok && n.Obj().Pkg() != nil {
		return strings.HasPrefix(n.Obj().Pkg().Path(), modPath)
	}
	return false
}
