package main

import (
	"fmt"
	"os"
)

// tryReplay attempts to turn the solver's counterexample for ob into a run of the real code.
// It returns (true, detail) when the failure was reproduced on /repo.
func tryReplay(w *World, ob *Obligation, rep map[string]interface{}) (bool, string) {
	return replayDispatch(w, ob, rep)
}

func cmdReplay(args []string) int {
	if len(args) == 0 {
		usage()
	}
	b, err := os.ReadFile(args[0])
	if err != nil {
		fmt.Fprintln(os.Stderr, err)
		return 2
	}
	fmt.Println(string(b))
	return 0
}
