package main

import (
	"golang.org/x/tools/go/ssa"
	"fmt"
	"go/types"
	"os"
	"regexp"
	"runtime"
	"sort"
	"strings"
	"sync"
)

// T is an SMT term with its SMT sort and (when known) its Go type.
type T struct {
	S    string
	Sort string
	Go   types.Type
}

// item is one entry of the ordered VC stream of a root function: either an
// assumption (asserted for everything after it) or an obligation.
type item struct {
	assert string // "(assert ...)" text, if assumption
	ob     *Obligation
}

type Obligation struct {
	Name   string // stable name: <fn>#<kind>:<anchor>[/n]
	Fn     string // root function (rel name)
	Kind   string
	Anchor string
	Tags   []string // property tags
	Pos    string   // file:line (informational)
	Goal   string   // Bool term that must hold (already includes reach =>)
	Hint   map[string]string
	// filled by the solver phase
	Status string // discharged | failed | unknown
	Solver string
	Secs   float64
	Model  string
	Stage  string // "" = decided in the function's incremental script; "retry" / "rescue" = only on its own
	idx    int    // position in items
}

// Enc accumulates the SMT context for one root function.
type Enc struct {
	ownMaps    map[string]bool // heaps of map types written only by the root's package (class 3)
	ownMapList []string
	keepOwn    bool // the class-0 havoc in progress cannot write the package's own map types

	w          *World
	db         *ContractDB
	decls      []string
	declKeys   []string
	declared   map[string]bool
	preserving bool // the current class-0 havoc is followed by preserve() (A-OWN)
	lamMemo    map[string]string
	havocChans bool   // set while havocking for a callee that may operate on channels
	wlog       []wrec // heap writes seen while probing a loop
	prot       []T    // protected terms (refs loaded from fields owned by the root's package)
	protSet    map[string]bool
	nextVer    int
	privPkg    string // package path whose struct heaps are "private" for framing
	items      []item
	nfresh     int
	freshRes   map[string]bool // call results declared fresh by their contracts (term names)
	recoverSeen map[*ssa.Function]bool // functions on the inlined stack that have executed a defer with recover()
	heapSort   map[string]string // heap name -> sort of the whole heap array
	structDT   map[string]bool
	strIDs     map[string]int
	typeIDs    map[string]int
	typeByID   map[int]types.Type
	funcIDs    map[string]int
	obNames    map[string]int
	rootFn     string
	probe      int // >0: in probe mode, obligations and notes are not recorded
	notes      map[string]bool
	assumed    map[string]bool // assumption ids used (A-EXT calls etc.)
}

func newEnc(w *World, db *ContractDB, root string) *Enc {
	e := &Enc{w: w, db: db, declared: map[string]bool{}, heapSort: map[string]string{},
		protSet: map[string]bool{}, structDT: map[string]bool{}, strIDs: db.strIDs,
		typeIDs: db.typeIDs, typeByID: db.typeByID, funcIDs: map[string]int{}, obNames: map[string]int{},
		rootFn: root, notes: map[string]bool{}, assumed: map[string]bool{}, lamMemo: map[string]string{}}
	return e
}

const prelude = `(set-option :produce-models true)
(set-logic ALL)
(declare-datatypes ((Iface 0)) (((mk_iface (ityp Int) (ival Int)))))
(declare-datatypes ((Slice 0)) (((mk_slice (sarr Int) (soff Int) (slen Int) (scap Int)))))
(declare-fun strlen (Int) Int)
(assert (= (strlen 0) 0))
`

type snapshot struct {
	ndecls, nitems, nfresh, nprot, nextVer int
	obNames                                map[string]int
}

func (e *Enc) snap() *snapshot {
	s := &snapshot{ndecls: len(e.decls), nitems: len(e.items), nfresh: e.nfresh,
		nprot: len(e.prot), nextVer: e.nextVer, obNames: map[string]int{}}
	for k, v := range e.obNames {
		s.obNames[k] = v
	}
	return s
}

func (e *Enc) rollback(s *snapshot) {
	for _, k := range e.declKeys[s.ndecls:] {
		delete(e.declared, k)
		delete(e.structDT, k)
	}
	e.decls = e.decls[:s.ndecls]
	e.declKeys = e.declKeys[:s.ndecls]
	for _, p := range e.prot[s.nprot:] {
		delete(e.protSet, p.S)
	}
	for k, v := range e.lamMemo {
		if !e.declared[v] {
			delete(e.lamMemo, k)
		}
	}
	e.prot = e.prot[:s.nprot]
	e.items = e.items[:s.nitems]
	e.nfresh = s.nfresh
	e.obNames = s.obNames
}

// addDecl appends a declaration (or a global, unconditional axiom) once per key.
func (e *Enc) addDecl(key, text string) {
	if e.declared[key] {
		return
	}
	e.declared[key] = true
	e.decls = append(e.decls, text)
	e.declKeys = append(e.declKeys, key)
}

func (e *Enc) declConst(name, sort string) {
	e.addDecl(name, fmt.Sprintf("(declare-const %s %s)", name, sort))
}

func (e *Enc) declFun(name string, args []string, ret string) {
	e.addDecl(name, fmt.Sprintf("(declare-fun %s (%s) %s)", name, strings.Join(args, " "), ret))
}

func (e *Enc) fresh(prefix, sort string) string {
	e.nfresh++
	n := fmt.Sprintf("%s!%d", prefix, e.nfresh)
	e.declConst(n, sort)
	return n
}

func (e *Enc) assume(b string) {
	if b == "true" {
		return
	}
	e.items = append(e.items, item{assert: "(assert " + b + ")"})
}

func (e *Enc) note(s string) {
	if e.probe == 0 {
		e.notes[s] = true
	}
}

// addOb records an obligation: under condition cond, prop must hold.
func (e *Enc) addOb(kind, anchor string, tags []string, pos string, cond, prop string) {
	if e.probe > 0 {
		return
	}
	if prop == "true" {
		// still count trivially true obligations? no: keep stream small
		return
	}
	base := e.rootFn + "#" + kind + ":" + anchor
	e.obNames[base]++
	name := base
	if n := e.obNames[base]; n > 1 {
		name = fmt.Sprintf("%s/%d", base, n)
	}
	goal := prop
	if cond != "true" {
		goal = "(=> " + cond + " " + prop + ")"
	}
	ob := &Obligation{Name: name, Fn: e.rootFn, Kind: kind, Anchor: anchor, Tags: tags, Pos: pos, Goal: goal, idx: len(e.items)}
	e.items = append(e.items, item{ob: ob})
}

// ---------------------------------------------------------------- sorts

func sanitize(s string) string {
	var b strings.Builder
	for _, r := range s {
		switch {
		case r >= 'a' && r <= 'z', r >= 'A' && r <= 'Z', r >= '0' && r <= '9', r == '_':
			b.WriteRune(r)
		case r == '*':
			b.WriteString("p")
		case r == '[' || r == ']':
			b.WriteString("_")
		default:
			b.WriteRune('_')
		}
	}
	return b.String()
}

func typeKey(t types.Type) string {
	s := types.TypeString(t, func(p *types.Package) string {
		path := p.Path()
		path = strings.TrimPrefix(path, modPath+"/")
		return path
	})
	return sanitize(s)
}

func (e *Enc) structKey(t types.Type) string {
	return "S_" + typeKey(t)
}

// sortOf maps a Go type to an SMT sort, declaring struct datatypes on demand.
func (e *Enc) sortOf(t types.Type) string {
	switch u := t.Underlying().(type) {
	case *types.Basic:
		switch {
		case u.Info()&types.IsBoolean != 0:
			return "Bool"
		case u.Info()&types.IsFloat != 0, u.Info()&types.IsComplex != 0:
			return "Real"
		default:
			return "Int"
		}
	case *types.Pointer, *types.Chan, *types.Map, *types.Signature:
		return "Int"
	case *types.Interface:
		return "Iface"
	case *types.Slice:
		return "Slice"
	case *types.Array:
		return "(Array Int " + e.sortOf(u.Elem()) + ")"
	case *types.Struct:
		k := e.structKey(t)
		if !e.structDT[k] {
			e.structDT[k] = true
			var fs []string
			for i := 0; i < u.NumFields(); i++ {
				fs = append(fs, fmt.Sprintf("(%s_f%d %s)", k, i, e.sortOf(u.Field(i).Type())))
			}
			if len(fs) == 0 {
				fs = append(fs, fmt.Sprintf("(%s_f0 Int)", k))
			}
			e.addDecl(k, fmt.Sprintf("(declare-datatypes ((%s 0)) (((mk_%s %s))))", k, k, strings.Join(fs, " ")))
		}
		return k
	case *types.Tuple:
		return "Int"
	}
	return "Int"
}

func (e *Enc) zero(t types.Type) string {
	switch u := t.Underlying().(type) {
	case *types.Basic:
		switch {
		case u.Info()&types.IsBoolean != 0:
			return "false"
		case u.Info()&types.IsFloat != 0, u.Info()&types.IsComplex != 0:
			return "0.0"
		default:
			return "0"
		}
	case *types.Interface:
		return "(mk_iface 0 0)"
	case *types.Slice:
		return "(mk_slice 0 0 0 0)"
	case *types.Array:
		return "((as const " + e.sortOf(t) + ") " + e.zero(u.Elem()) + ")"
	case *types.Struct:
		k := e.sortOf(t)
		var fs []string
		for i := 0; i < u.NumFields(); i++ {
			fs = append(fs, e.zero(u.Field(i).Type()))
		}
		if len(fs) == 0 {
			fs = append(fs, "0")
		}
		return "(mk_" + k + " " + strings.Join(fs, " ") + ")"
	}
	return "0"
}

var idMu sync.Mutex

func (e *Enc) strID(s string) string {
	if s == "" {
		return "0"
	}
	idMu.Lock()
	id, ok := e.strIDs[s]
	if !ok {
		id = 1000 + len(e.strIDs)
		e.strIDs[s] = id
	}
	idMu.Unlock()
	n := fmt.Sprintf("%d", id)
	e.addDecl("strlen@"+n, fmt.Sprintf("(assert (= (strlen %s) %d))", n, len(s)))
	return n
}

func (e *Enc) typeID(t types.Type) int {
	k := types.TypeString(t, nil)
	idMu.Lock()
	defer idMu.Unlock()
	id, ok := e.typeIDs[k]
	if !ok {
		id = 1 + len(e.typeIDs)
		e.typeIDs[k] = id
		e.typeByID[id] = t
	}
	return id
}

// knownTypes returns a snapshot of the type-tag table.
func (e *Enc) knownTypes() map[int]types.Type {
	idMu.Lock()
	defer idMu.Unlock()
	m := make(map[int]types.Type, len(e.typeByID))
	for k, v := range e.typeByID {
		m[k] = v
	}
	return m
}

// ---------------------------------------------------------------- state

// State is the symbolic machine state at a program point. Heaps are versioned;
// a heap name without an entry has the version base[class(name)], so that a
// "havoc everything of this class" event also covers heaps first used later.
type State struct {
	cond string         // reach condition
	heap map[string]int // heap name -> version
	base [4]int         // default version per class (0 = shared/public, 1 = private to root's package, 2 = call ghosts of the root, never havocked wholesale)
}

func (s *State) clone() *State {
	n := &State{cond: s.cond, heap: make(map[string]int, len(s.heap)), base: s.base}
	for k, v := range s.heap {
		n.heap[k] = v
	}
	return n
}

func heapName(name string, v int) string {
	return fmt.Sprintf("%s@%d", name, v)
}

// class of a heap: 1 if it is a field heap of a struct declared in the root's package.
func (e *Enc) class(name string) int {
	if e.privPkg != "" && strings.HasPrefix(name, "H_S_"+e.privPkg+"_") {
		return 1
	}
	if e.ownMaps[name] {
		return 3 // maps of types written only by the root's package: changed by name only (see havocClass)
	}
	if name == "HELD" {
		return 2 // thread-local: which mutexes this thread has locked
	}
	for _, p := range []string{"CALLED_", "COUNT_", "LAST_", "LASTB_", "ARGS_", "VIS_"} {
		if strings.HasPrefix(name, p) {
			return 2 // ghost record of the calls made by the function under verification: callees cannot change it
		}
	}
	return 0
}

func (e *Enc) ver(st *State, name string) int {
	if v, ok := st.heap[name]; ok {
		return v
	}
	return st.base[e.class(name)]
}

// H returns the current version term of heap `name` (declaring it lazily).
func (e *Enc) H(st *State, name, sort string) string {
	if old, ok := e.heapSort[name]; ok && old != sort {
		panic(fmt.Sprintf("heap %s sort mismatch %s vs %s", name, old, sort))
	}
	e.heapSort[name] = sort
	n := heapName(name, e.ver(st, name))
	e.declConst(n, sort)
	return n
}

// newVer allocates a new version of heap name in st and returns its term.
func (e *Enc) newVer(st *State, name string) string {
	sort := e.heapSort[name]
	if sort == "" {
		panic("newVer on unknown heap " + name)
	}
	e.nextVer++
	st.heap[name] = e.nextVer
	n := heapName(name, e.nextVer)
	e.declConst(n, sort)
	return n
}

// setHeap defines a new version equal to val.
func (e *Enc) setHeap(st *State, name, sort, val string) {
	e.H(st, name, sort)
	n := e.newVer(st, name)
	e.assume("(= " + n + " " + val + ")")
	if e.probe > 0 {
		e.wlog = append(e.wlog, wrec{name, storeIdx(val)})
	}
}

type wrec struct{ name, idx string }

// storeIdx extracts the index of a "(store H idx v)" term ("?" if val is not a store).
func storeIdx(val string) string {
	if !strings.HasPrefix(val, "(store ") {
		return "?"
	}
	rest := val[len("(store "):]
	_, rest = sexpr(rest)
	idx, _ := sexpr(strings.TrimLeft(rest, " "))
	if idx == "" {
		return "?"
	}
	return idx
}

// sexpr splits off the first s-expression of s.
func sexpr(s string) (first, rest string) {
	s = strings.TrimLeft(s, " ")
	if s == "" {
		return "", ""
	}
	if s[0] != '(' {
		i := strings.IndexAny(s, " )")
		if i < 0 {
			return s, ""
		}
		return s[:i], s[i:]
	}
	d := 0
	for i := 0; i < len(s); i++ {
		if s[i] == '(' {
			d++
		} else if s[i] == ')' {
			d--
			if d == 0 {
				return s[:i+1], s[i+1:]
			}
		}
	}
	return s, ""
}

// havoc gives heap `name` a fresh unconstrained version.
func (e *Enc) havoc(st *State, name string) {
	if e.probe > 0 {
		e.wlog = append(e.wlog, wrec{name, "?"})
	}
	e.nextVer++
	st.heap[name] = e.nextVer
}

// havocClass gives every heap of the class (including ones not used yet) a fresh version.
func (e *Enc) havocClass(st *State, class int) {
	if os.Getenv("GOVC_DEBUG") == "2" {
		buf := make([]byte, 3000)
		n := runtime.Stack(buf, false)
		fmt.Fprintf(os.Stderr, "havocClass(%d) probe=%d\n%s\n", class, e.probe, buf[:n])
	}
	// EXCL is thread-local ghost state: it changes only through Lock/Unlock/allocation
	// Channel state changes only through explicit channel operations, callees that declare
	// "modifies chans", or unknown callees that are handed a channel (see havocOutside).
	if class == 0 && e.probe > 0 && !e.preserving {
		e.wlog = append(e.wlog, wrec{"*np", ""})
	}
	if class == 0 {
		exclV, c1, c2 := e.ver(st, "EXCL"), e.ver(st, "CH_closed"), e.ver(st, "CH_len")
		keep := !e.havocChans
		defer func() {
			st.heap["EXCL"] = exclV
			if keep {
				st.heap["CH_closed"], st.heap["CH_len"] = c1, c2
			}
		}()
	}
	for k := range st.heap {
		if e.class(k) == class {
			delete(st.heap, k)
		}
	}
	e.nextVer++
	st.base[class] = e.nextVer
	if class == 0 && !e.keepOwn {
		// the havocking party may write the package's own map types (in-package callee, callbacks, other threads)
		for _, n := range e.ownMapList {
			e.havoc(st, n)
		}
	}
}

type edge struct {
	cond string
	st   *State
}

// merge joins several incoming edges into one state.
func (e *Enc) merge(edges []edge) *State {
	if len(edges) == 0 {
		return &State{cond: "false", heap: map[string]int{}}
	}
	if len(edges) == 1 {
		s := edges[0].st.clone()
		s.cond = edges[0].cond
		return s
	}
	var conds []string
	for _, ed := range edges {
		conds = append(conds, ed.cond)
	}
	rc := e.fresh("reach", "Bool")
	e.assume("(= " + rc + " (or " + strings.Join(conds, " ") + "))")
	out := &State{cond: rc, heap: map[string]int{}, base: edges[0].st.base}
	for c := 0; c < 2; c++ {
		for _, ed := range edges[1:] {
			if ed.st.base[c] != out.base[c] {
				e.nextVer++
				out.base[c] = e.nextVer
				break
			}
		}
	}
	names := map[string]bool{}
	for _, ed := range edges {
		for k := range ed.st.heap {
			names[k] = true
		}
	}
	for k := range e.heapSort {
		names[k] = true
	}
	var ns []string
	for k := range names {
		ns = append(ns, k)
	}
	sort.Strings(ns)
	for _, k := range ns {
		v0 := e.ver(edges[0].st, k)
		same := true
		for _, ed := range edges[1:] {
			if e.ver(ed.st, k) != v0 {
				same = false
			}
		}
		if same {
			if v0 != out.base[e.class(k)] {
				out.heap[k] = v0
			}
			continue
		}
		srt := e.heapSort[k]
		if srt == "" {
			// never used so far: nothing is known about it; give it a fresh version so
			// that it cannot be confused with an earlier (e.g. entry) version
			e.nextVer++
			out.heap[k] = e.nextVer
			continue
		}
		nv := e.newVer(out, k)
		for _, ed := range edges {
			hn := heapName(k, e.ver(ed.st, k))
			e.declConst(hn, srt)
			e.assume("(=> " + ed.cond + " (= " + nv + " " + hn + "))")
		}
	}
	return out
}

func and(xs ...string) string {
	var ys []string
	for _, x := range xs {
		if x == "true" || x == "" {
			continue
		}
		if x == "false" {
			return "false"
		}
		ys = append(ys, x)
	}
	switch len(ys) {
	case 0:
		return "true"
	case 1:
		return ys[0]
	}
	return "(and " + strings.Join(ys, " ") + ")"
}

func or(xs ...string) string {
	var ys []string
	for _, x := range xs {
		if x == "false" || x == "" {
			continue
		}
		if x == "true" {
			return "true"
		}
		ys = append(ys, x)
	}
	switch len(ys) {
	case 0:
		return "false"
	case 1:
		return ys[0]
	}
	return "(or " + strings.Join(ys, " ") + ")"
}

func not(x string) string {
	switch x {
	case "true":
		return "false"
	case "false":
		return "true"
	}
	if strings.HasPrefix(x, "(not ") && balanced(x[5:len(x)-1]) {
		return x[5 : len(x)-1]
	}
	return "(not " + x + ")"
}

func balanced(s string) bool {
	d := 0
	for _, c := range s {
		if c == '(' {
			d++
		} else if c == ')' {
			d--
			if d < 0 {
				return false
			}
		}
	}
	return d == 0
}

func implies(a, b string) string {
	if a == "true" {
		return b
	}
	if b == "true" || a == "false" {
		return "true"
	}
	return "(=> " + a + " " + b + ")"
}

func ite(c, a, b string) string {
	if c == "true" {
		return a
	}
	if c == "false" {
		return b
	}
	if a == b {
		return a
	}
	return "(ite " + c + " " + a + " " + b + ")"
}

func eq(a, b string) string {
	if a == b {
		return "true"
	}
	return "(= " + a + " " + b + ")"
}

func num(n int64) string {
	if n < 0 {
		return fmt.Sprintf("(- %d)", -n)
	}
	return fmt.Sprintf("%d", n)
}

var identRe = regexp.MustCompile(`[A-Za-z_][A-Za-z0-9_!@.]*`)

var smtBuiltins = map[string]bool{"select": true, "store": true, "sarr": true, "soff": true, "slen": true, "scap": true,
	"ityp": true, "ival": true, "mk_slice": true, "mk_iface": true, "ite": true, "and": true, "or": true, "not": true,
	"true": true, "false": true, "as": true, "const": true, "Array": true, "Int": true, "Bool": true, "div": true, "mod": true}

// termDeclared reports whether all symbols of the term are currently declared (i.e. the term
// is meaningful outside the probe in which it was recorded).
func (e *Enc) termDeclared(t string) bool {
	for _, id := range identRe.FindAllString(t, -1) {
		if smtBuiltins[id] || e.declared[id] {
			continue
		}
		return false
	}
	return true
}
