package main

// replayDispatch selects a replay driver by obligation kind and function. Drivers are
// registered in replayDrivers; none applying means "no-failing-input-found".
type replayDriver func(w *World, ob *Obligation, rep map[string]interface{}) (bool, string)

var replayDrivers []replayDriver

func replayDispatch(w *World, ob *Obligation, rep map[string]interface{}) (bool, string) {
	for _, d := range replayDrivers {
		if ok, detail := d(w, ob, rep); ok || detail != "" {
			return ok, detail
		}
	}
	return false, ""
}
