package main

import "strings"

// replayDispatch selects a replay driver by obligation kind and function. Drivers are
// registered in replayDrivers; none applying means "no-failing-input-found".
type replayDriver func(w *World, ob *Obligation, rep map[string]interface{}) (bool, string)

var replayDrivers []replayDriver

func replayDispatch(w *World, ob *Obligation, rep map[string]interface{}) (bool, string) {
	var tried []string
	for _, d := range replayDrivers {
		ok, detail := d(w, ob, rep)
		if ok {
			return true, detail
		}
		if detail != "" {
			tried = append(tried, detail)
		}
	}
	return false, strings.Join(tried, "; ")
}
