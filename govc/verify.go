package main

import (
	"go/parser"
	"fmt"
	"go/ast"
	"go/types"
	"sort"
	"strings"

	"golang.org/x/tools/go/ssa"
)

type pendInv struct {
	invs  []loopInv
	entry map[*ssa.Phi]T
}

// FnResult is the outcome of generating the VCs of one root function.
type FnResult struct {
	key       string
	Rel       string
	Enc       *Enc
	Obs       []*Obligation
	Notes     []string
	Assumed   []string
	Unclaimed []string
	Err       string
	Instrs    int
}

func pkgRel(p *types.Package) string {
	return strings.TrimPrefix(strings.TrimPrefix(p.Path(), modPath), "/")
}

func hasTag(tags []string, t string) bool {
	for _, x := range tags {
		if x == t {
			return true
		}
	}
	return false
}

// contractProps returns the set of property tags mentioned by a contract.
func contractProps(ct *Contract) map[string]bool {
	m := map[string]bool{}
	add := func(ts []string) {
		for _, t := range ts {
			m[t] = true
		}
	}
	for _, l := range [][]*SpecExpr{ct.Requires, ct.Ensures} {
		for _, s := range l {
			add(s.Tags)
		}
	}
	add(ct.NoPanicTags)
	add(ct.ChanSafeTags)
	if ct.AllocBound != nil {
		add(ct.AllocBound.Tags)
	}
	for _, a := range ct.AssertAt {
		add(a.Spec.Tags)
	}
	if ct.PanicsIff != nil {
		add(ct.PanicsIff.Tags)
	}
	for _, l := range ct.Loops {
		for _, s := range l.Invs {
			add(s.Tags)
		}
	}
	return m
}

// genVCs builds the VC stream for the function under contract ct.
func genVCs(w *World, db *ContractDB, ct *Contract) (res *FnResult) {
	res = &FnResult{Rel: ct.Rel, key: ct.Key}
	fn := ct.Fn
	e := newEnc(w, db, ct.Rel)
	res.Enc = e
	defer func() {
		if r := recover(); r != nil {
			res.Err = fmt.Sprintf("engine failure in %s: %v", ct.Rel, r)
		}
	}()
	if fn == nil || len(fn.Blocks) == 0 {
		res.Err = "no body for " + ct.Rel
		return
	}
	res.Instrs = countInstrs(fn)
	if fn.Pkg != nil {
		e.privPkg = sanitize(pkgRel(fn.Pkg.Pkg))
	}
	f := &frame{e: e, fn: fn, vals: map[ssa.Value]T{}, addrs: map[ssa.Value]Addr{}, tuples: map[ssa.Value][]T{},
		ct: ct, nopanic: ct.NoPanic, tags: ct.NoPanicTags, pinv: map[*ssa.BasicBlock]*pendInv{}, assertHit: map[*SpecExpr]bool{}}
	f.root = f
	e.ownMaps = map[string]bool{}
	e.ownMapList = f.ownMapHeaps()
	for _, n := range e.ownMapList {
		e.ownMaps[n] = true
	}
	st := &State{cond: "true", heap: map[string]int{}}
	e.assume("(>= " + e.H(st, "W", "Int") + " 0)")
	for _, sc := range sameCallees(fn) {
		e.setHeap(st, "CALLED_"+sc, "Bool", "false")
		e.setHeap(st, "COUNT_"+sc, "Int", "0")
		e.setHeap(st, "ARGS_"+sc, "(Array Int Bool)", "((as const (Array Int Bool)) false)")
	}
	e.H(st, "EXCL", "(Array Int Bool)")
	e.H(st, "HELD", "(Array Int Bool)")
	// a locked mutex gives exclusive access
	e.assume("(forall ((m Int)) (! (=> (select " + e.H(st, "HELD", "(Array Int Bool)") + " m) (select " + e.H(st, "EXCL", "(Array Int Bool)") + " m)) :pattern ((select " + e.H(st, "HELD", "(Array Int Bool)") + " m))))")
	for _, p := range fn.Params {
		srt := e.sortOf(p.Type())
		n := "p_" + sanitize(p.Name())
		e.declConst(n, srt)
		f.vals[p] = T{n, srt, p.Type()}
		e.assume(f.facts(n, p.Type(), st))
	}
	for _, fv := range fn.FreeVars {
		t := f.freshVal("fv_"+sanitize(fv.Name()), fv.Type(), st)
		f.vals[fv] = t
		if _, isP := fv.Type().(*types.Pointer); isP {
			// a captured variable is a cell created by the enclosing function: never nil, distinct per variable
			e.assume("(not (= " + t.S + " 0))")
			for _, other := range fn.FreeVars {
				if other == fv {
					break
				}
				if o, ok := f.vals[other]; ok && o.Sort == t.Sort {
					e.assume("(not (= " + t.S + " " + o.S + "))")
				}
			}
		}
	}
	env := f.specEnv(st)
	env.pkg = ct.Pkg
	for _, r := range ct.Requires {
		t, err := env.evalBool(r)
		if err != nil {
			res.Err = err.Error()
			return
		}
		e.assume(t)
	}
	// pre-evaluate old(...) subterms so that their heaps exist before any havoc
	for _, en := range ct.Ensures {
		ast.Inspect(en.Expr, func(n ast.Node) bool {
			if c, ok := n.(*ast.CallExpr); ok {
				if id, ok := c.Fun.(*ast.Ident); ok && (id.Name == "old" || id.Name == "unchanged") {
					for _, a := range c.Args {
						_, _ = env.eval(a)
					}
				}
			}
			return true
		})
	}
	// vacuity: the preconditions must be satisfiable
	e.items = append(e.items, item{ob: &Obligation{Name: ct.Rel + "#cover:entry", Fn: ct.Rel, Kind: "cover", Goal: "true", idx: len(e.items)}})
	entry := st.clone()
	f.entrySt = entry
	f.run(st)
	// postconditions on every return edge
	var retConds []string
	// vacuity guard per postcondition: for "ensures A ==> B" some return must be reachable with A true, otherwise
	// the clause says nothing (e.g. the success path became infeasible in the model)
	anteReach := map[*SpecExpr][]string{}
	for k, r := range f.rets {
		retConds = append(retConds, r.cond)
		penv := f.specEnv(r.st)
		if r.block != nil {
			f.localsAt(r.block, penv)
		}
		penv.pkg = ct.Pkg
		penv.old = entry
		penv.lock = f.lockSt
		penv.results = r.vals
		penv.resName = ct.ResultNames
		if ct.PanicsIff != nil {
			eenv := f.specEnv(entry)
			eenv.pkg = ct.Pkg
			if t, err := eenv.evalBool(ct.PanicsIff); err == nil {
				e.addOb("returns-only-if-not", ct.PanicsIff.Text, ct.PanicsIff.Tags, ct.PanicsIff.Src+" @return "+r.pos, r.cond, not(t))
			}
		}
		for _, en := range ct.Ensures {
			t, err := penv.evalBool(en)
			if err != nil {
				// the clause can no longer be evaluated on this code (e.g. atlock() without a Lock()):
				// it is undischarged, not an engine failure
				e.note("postcondition cannot be evaluated: " + err.Error())
				e.addOb("post-unevaluable", en.Text, en.Tags, en.Src+" @return "+r.pos, r.cond, "false")
				continue
			}
			_ = k
			e.addOb("post", en.Text, en.Tags, en.Src+" @return "+r.pos, r.cond, t)
			if imp := implicationAntecedent(en.Expr); imp != nil && speaksOfSuccess(imp) {
				if at, err := penv.evalBool(&SpecExpr{Expr: imp, Text: en.Text, Src: en.Src}); err == nil {
					anteReach[en] = append(anteReach[en], and(r.cond, at))
				}
			}
		}
	}
	// refinement: an implementation of a `refined` interface method contract must establish that contract's ensures
	if fn := ct.Fn; fn != nil && fn.Signature.Recv() != nil && len(fn.Params) > 0 {
		var keys []string
		for k := range db.byIface {
			keys = append(keys, k)
		}
		sort.Strings(keys)
		for _, k := range keys {
			ic := db.byIface[k]
			if !ic.Refined || !strings.HasSuffix(ic.Key, ")."+fn.Name()) || len(ic.ParamTypes) == 0 {
				continue
			}
			it, ok := ic.ParamTypes[0].Underlying().(*types.Interface)
			if !ok || !types.Implements(fn.Params[0].Type(), it) || len(ic.ParamNames) != len(fn.Params) {
				continue
			}
			for _, r := range f.rets {
				renv := f.specEnv(r.st)
				renv.pkg = ic.Pkg
				renv.old = entry
				renv.lock = f.lockSt
				renv.results = r.vals
				renv.resName = ic.ResultNames
				renv.lets = ic.Lets
				for i, pn := range ic.ParamNames {
					v, ok := f.vals[fn.Params[i]]
					if !ok {
						continue
					}
					if i == 0 {
						v = T{"(mk_iface " + fmt.Sprint(e.typeID(fn.Params[0].Type())) + " " + v.S + ")", "Iface", ic.ParamTypes[0]}
					}
					renv.vars[pn] = v
				}
				// the caller of the interface method establishes the interface's preconditions: they are hypotheses here
				// (parameters of the implementation that have no name are still bound under the interface's names)
				hyp := "true"
				eenv := f.specEnv(entry)
				eenv.pkg = ic.Pkg
				eenv.old = entry
				for pn, v := range renv.vars {
					eenv.vars[pn] = v
				}
				for _, rq := range ic.Requires {
					if ht, err := eenv.evalBool(rq); err == nil {
						hyp = and(hyp, ht)
					}
				}
				for _, en := range ic.Ensures {
					tags := en.Tags
					if len(tags) == 0 {
						tags = ct.NoPanicTags
					}
					t, err := renv.evalBool(en)
					if err != nil {
						e.note("interface clause cannot be evaluated on the implementation: " + err.Error())
						e.addOb("refine-unevaluable", ic.Key+": "+en.Text, tags, en.Src+" @return "+r.pos, r.cond, "false")
						continue
					}
					e.addOb("refine", ic.Key+": "+en.Text, tags, en.Src+" @return "+r.pos, r.cond, implies(hyp, t))
				}
			}
		}
	}
	for _, en := range ct.Ensures {
		if cs := anteReach[en]; len(cs) > 0 {
			e.items = append(e.items, item{ob: &Obligation{Name: ct.Rel + "#cover:post:" + en.Text, Fn: ct.Rel, Kind: "cover", Tags: en.Tags, Goal: or(cs...), idx: len(e.items)}})
		}
	}
	// a ghost assertion whose anchor matches no call/send can no longer be checked: undischarged
	for _, a := range ct.AssertAt {
		if !f.assertHit[a.Spec] {
			e.addOb("assert-anchor-missing", a.What+" \""+a.Sub+"\": "+a.Spec.Text, a.Spec.Tags, a.Spec.Src, "true", "false")
		}
	}
	// frame: heaps outside the modifies clause keep their contents on all objects allocated at entry
	if ct.ModifiesSet {
		f.frameObligations(ct, entry)
	}
	if len(retConds) > 0 {
		e.items = append(e.items, item{ob: &Obligation{Name: ct.Rel + "#cover:return", Fn: ct.Rel, Kind: "cover", Goal: or(retConds...), idx: len(e.items)}})
	}
	// axioms whose spec functions are in use
	f.addAxioms()
	if e.declared["ptrtype"] {
		f.ptrTypeFacts()
	}
	for i, ra := range db.rawAxioms {
		want := false
		for _, g := range ct.Use {
			if hasTag(ra.Tags, g) {
				want = true
			}
		}
		if want {
			// a spec function the axiom mentions but the function's own clauses do not must still be declared
			for name, sf := range db.specFns {
				if strings.Contains(ra.Text, "("+name+" ") || strings.Contains(ra.Text, " "+name+")") {
					e.declFun(name, sf.Args, sf.Ret)
				}
			}
			e.addDecl(fmt.Sprintf("rawaxiom@%d", i), "(assert "+ra.Text+")")
		}
	}
	var kept []item
	for _, it := range e.items {
		if it.ob != nil {
			un := false
			for _, u := range ct.Unclaimed {
				if it.ob.Kind == u.Kind && strings.Contains(it.ob.Anchor, u.Sub) {
					un = true
					res.Unclaimed = append(res.Unclaimed, it.ob.Name+" -- "+u.Reason)
				}
			}
			if un {
				continue
			}
			res.Obs = append(res.Obs, it.ob)
		}
		kept = append(kept, it)
	}
	e.items = kept
	for n := range e.notes {
		res.Notes = append(res.Notes, n)
	}
	sort.Strings(res.Notes)
	for n := range e.assumed {
		res.Assumed = append(res.Assumed, n)
	}
	sort.Strings(res.Assumed)
	return
}

func (f *frame) addAxioms() {
	e := f.e
	db := e.db
	used := func(x ast.Expr) bool {
		hit := false
		ast.Inspect(x, func(n ast.Node) bool {
			if c, ok := n.(*ast.CallExpr); ok {
				if id, ok := c.Fun.(*ast.Ident); ok {
					if sf, ok := db.specFns[id.Name]; ok && e.declared[sf.Name] {
						hit = true
					}
				}
			}
			return true
		})
		return hit
	}
	done := map[int]bool{}
	for changed := true; changed; {
		changed = false
		for i, ax := range db.axioms {
			if done[i] || !used(ax.Expr) {
				continue
			}
			if len(ax.Tags) > 0 {
				// grouped axiom: only for functions that ask for the group
				want := false
				if f.ct != nil {
					for _, g := range f.ct.Use {
						if hasTag(ax.Tags, g) {
							want = true
						}
					}
				}
				if !want {
					done[i] = true
					continue
				}
			}
			done[i] = true
			changed = true
			env := &specEnv{f: f, vars: map[string]T{}, cur: &State{cond: "true", heap: map[string]int{}}, pkg: db.axiomPkg[i]}
			env.old = env.cur
			t, err := env.evalBool(ax)
			if err != nil {
				e.note("axiom eval: " + err.Error())
				continue
			}
			e.addDecl(fmt.Sprintf("axiom@%d", i), "(assert "+t+")")
		}
	}
}

// script renders the incremental SMT script for all obligations of the function.
func (e *Enc) script(timeoutMs int) (string, []*Obligation) {
	var b strings.Builder
	b.WriteString(prelude)
	for _, d := range e.decls {
		b.WriteString(d)
		b.WriteByte('\n')
	}
	var obs []*Obligation
	for _, it := range e.items {
		if it.ob == nil {
			b.WriteString(it.assert)
			b.WriteByte('\n')
			continue
		}
		obs = append(obs, it.ob)
		b.WriteString("(push 1)\n")
		if it.ob.Kind == "cover" {
			// vacuity check: a contradiction among the assumptions shows up quickly as unsat; with quantified
			// assumptions a satisfiable answer may never come, so the query gets a short budget
			b.WriteString("(assert " + it.ob.Goal + ")\n")
			b.WriteString("(set-option :timeout 1500)\n(check-sat)\n(set-option :timeout " + fmt.Sprint(timeoutMs) + ")\n(pop 1)\n")
			continue
		}
		b.WriteString("(assert (not " + it.ob.Goal + "))\n")
		b.WriteString("(check-sat)\n(pop 1)\n")
	}
	return b.String(), obs
}

// single renders a standalone script for one obligation (with model request).
func (e *Enc) single(ob *Obligation) string {
	var b strings.Builder
	b.WriteString(prelude)
	for _, d := range e.decls {
		b.WriteString(d)
		b.WriteByte('\n')
	}
	for _, it := range e.items {
		if it.ob == nil {
			b.WriteString(it.assert)
			b.WriteByte('\n')
			continue
		}
		if it.ob == ob {
			break
		}
	}
	if ob.Kind == "cover" {
		b.WriteString("(assert " + ob.Goal + ")\n")
	} else {
		b.WriteString("(assert (not " + ob.Goal + "))\n")
	}
	b.WriteString("(check-sat)\n")
	return b.String()
}

func (f *frame) frameObligations(ct *Contract, entry *State) {
	e := f.e
	var names []string
	for n := range e.heapSort {
		names = append(names, n)
	}
	sort.Strings(names)
	w0 := e.H(entry, "W", "Int")
	ownMaps := e.ownMaps
	for _, r := range f.rets {
		badClass := map[int]bool{}
		for c := 0; c < 2; c++ {
			if r.st.base[c] == entry.base[c] {
				continue
			}
			ok := false
			for _, m := range ct.Modifies {
				if m == "all" || (m == "shared" && c == 0) {
					ok = true
				}
			}
			if !ok {
				badClass[c] = true
				e.addOb("frame", fmt.Sprintf("class%d-havocked-by-callee-without-frame", c), nil, ct.Src, r.cond, "false")
			}
		}
		for _, n := range names {
			if n == "W" || n == "EXCL" || n == "HELD" || strings.HasPrefix(n, "LAST_") || strings.HasPrefix(n, "CALLED_") || strings.HasPrefix(n, "COUNT_") || strings.HasPrefix(n, "ARGS_") || strings.HasPrefix(n, "VIS_") || strings.HasPrefix(n, "LASTB_") {
				continue
			}
			v0, v1 := e.ver(entry, n), e.ver(r.st, n)
			if ct.KeepOwnMaps && v0 != v1 && ownMaps[n] {
				// "keeps ownmaps": the package's own map types keep their contents (on objects that existed at entry)
				h0, h1 := e.H(entry, n, e.heapSort[n]), e.H(r.st, n, e.heapSort[n])
				e.declFun("owner", []string{"Int"}, "Int")
				e.addOb("frame", "keeps-ownmaps:"+n, nil, ct.Src, r.cond, "(= "+h1+" "+h0+")")
				continue
			}
			if v0 == v1 || e.modAllows(ct, n) || badClass[e.class(n)] {
				continue
			}
			if !strings.HasPrefix(e.heapSort[n], "(Array Int ") {
				continue
			}
			h0, h1 := e.H(entry, n, e.heapSort[n]), e.H(r.st, n, e.heapSort[n])
			excl := ""
			for _, m := range ct.Modifies {
				if i := strings.Index(m, "@"); i > 0 && strings.Contains(m[:i], ".") {
					// T.f@param: the field may change on that object only
					tf := m[:i]
					d := strings.Index(tf, ".")
					if obj := ct.Pkg.Scope().Lookup(tf[:d]); obj != nil && "H_"+e.structKey(obj.Type())+"_"+tf[d+1:] == n {
						isParam := false
						for _, p := range f.fn.Params {
							if p.Name() == m[i+1:] {
								excl += " (not (= fr " + f.vals[p].S + "))"
								isParam = true
							}
						}
						if !isParam {
							// T.f@expr: an object named by an expression over the parameters, evaluated at entry
							if ex, err := parser.ParseExpr(m[i+1:]); err == nil {
								env := f.specEnv(entry)
								env.old = entry
								if t, err := env.eval(ex); err == nil && t.Sort == "Int" {
									excl += " (not (= fr " + t.S + "))"
								}
							}
						}
					}
				}
				if strings.HasPrefix(m, "elems(") {
					pn := m[6 : len(m)-1]
					for _, p := range f.fn.Params {
						if p.Name() != pn {
							continue
						}
						if stp, ok := p.Type().Underlying().(*types.Slice); ok {
							if eh, _ := f.elemHeap(stp.Elem()); eh == n {
								excl += " (not (= fr (sarr " + f.vals[p].S + ")))"
							}
						}
					}
				}
			}
			if n == "GV_hstate" && e.declared["glob_crypto_rand_Reader"] {
				// drawing from the system random source advances its (ghost) stream position: never a frame violation
				excl += " (not (= fr (ival (select " + e.H(entry, "P_Iface", "(Array Int Iface)") + " glob_crypto_rand_Reader))))"
			}
			e.declFun("owner", []string{"Int"}, "Int")
			goal := "(forall ((fr Int)) (=> (and (<= (owner fr) " + w0 + ")" + excl + ") (= (select " + h1 + " fr) (select " + h0 + " fr))))"
			e.addOb("frame", n, nil, ct.Src, r.cond, goal)
		}
	}
}

// sameCallees lists the names of functions called statically from fn (ghost CALLED_ flags start false).
func sameCallees(fn *ssa.Function) []string {
	seen := map[string]bool{}
	var out []string
	// the call ghosts count the calls executed while this root is verified, including those of helpers that are
	// inlined into it: start all of them at zero (names reachable through static callees, a few levels deep)
	var visit func(g *ssa.Function, depth int)
	visited := map[*ssa.Function]bool{}
	visit = func(g *ssa.Function, depth int) {
		if g == nil || visited[g] || depth > 4 {
			return
		}
		visited[g] = true
		for _, b := range g.Blocks {
			for _, ins := range b.Instrs {
				c, ok := ins.(ssa.CallInstruction)
				if !ok {
					continue
				}
				n := ""
				if sc := c.Common().StaticCallee(); sc != nil {
					n = sc.Name()
					if sc.Pkg != nil && strings.HasPrefix(sc.Pkg.Pkg.Path(), modPath) {
						visit(sc, depth+1)
					}
				} else if c.Common().IsInvoke() {
					n = c.Common().Method.Name()
				}
				if n != "" && !seen[n] {
					seen[n] = true
					out = append(out, n)
				}
			}
		}
	}
	for _, b := range fn.Blocks {
		for _, ins := range b.Instrs {
			if c, ok := ins.(ssa.CallInstruction); ok {
				if sc := c.Common().StaticCallee(); sc != nil && sc.Pkg != nil && strings.HasPrefix(sc.Pkg.Pkg.Path(), modPath) {
					visit(sc, 1)
				}
			}
		}
	}
	for _, b := range fn.Blocks {
		for _, ins := range b.Instrs {
			if c, ok := ins.(ssa.CallInstruction); ok {
				n := ""
				if sc := c.Common().StaticCallee(); sc != nil {
					n = sc.Name()
				} else if c.Common().IsInvoke() {
					n = c.Common().Method.Name()
				} else if pv, ok := c.Common().Value.(*ssa.Parameter); ok {
					n = pv.Name()
				}
				if n != "" && !seen[n] {
					seen[n] = true
					out = append(out, n)
				}
			}
		}
	}
	sort.Strings(out)
	return out
}

// implicationAntecedent returns A for a clause of the form "A ==> B" (the spec parser represents ==> as a binary
// operator node), nil otherwise.
func implicationAntecedent(x ast.Expr) ast.Expr {
	switch y := x.(type) {
	case *ast.ParenExpr:
		return implicationAntecedent(y.X)
	case *ast.CallExpr:
		if id, ok := y.Fun.(*ast.Ident); ok && id.Name == "implies" && len(y.Args) == 2 {
			return y.Args[0]
		}
	}
	return nil
}

// speaksOfSuccess: the antecedent tests a result (or a named error result) against nil -- the shape "on success ...".
// Only such clauses get a reachability guard: a generic clause ("if the result is an *Abort then ...") may legitimately
// have an antecedent that a particular function never makes true.
func speaksOfSuccess(x ast.Expr) bool {
	hit := false
	ast.Inspect(x, func(n ast.Node) bool {
		be, ok := n.(*ast.BinaryExpr)
		if !ok {
			return true
		}
		if be.Op.String() != "==" {
			return true
		}
		l, lok := be.X.(*ast.Ident)
		r, rok := be.Y.(*ast.Ident)
		if lok && rok && r.Name == "nil" && (strings.HasPrefix(l.Name, "result") || l.Name == "err") {
			hit = true
		}
		return !hit
	})
	return hit
}
