package main

import (
	"encoding/json"
	"fmt"
	"os"
	"path/filepath"
	"regexp"
	"strings"
)

// Driver R3: witness replays. /verif/findings/registry.json names, for obligations that exposed a defect earlier, the
// test that demonstrated it on the real code. When such an obligation fails again (the defect is back, or a change
// broke the same clause in another way), the witness is injected into the tree under check with go test -overlay and
// run; if it fails there, the violation is reproduced with the concrete input the test prints. A witness that passes
// proves nothing either way: the violation is then reported with no-failing-input-found as before.
type witnessEntry struct {
	Fn   string `json:"fn"`
	Name string `json:"name"`
	Pkg  string `json:"pkg"`
	File string `json:"file"`
	Run  string `json:"run"`
}

func init() {
	replayDrivers = append(replayDrivers, replayWitness)
}

func replayWitness(w *World, ob *Obligation, rep map[string]interface{}) (bool, string) {
	b, err := os.ReadFile(filepath.Join(verifDir(), "findings", "registry.json"))
	if err != nil {
		return false, ""
	}
	var reg struct {
		Witnesses []witnessEntry `json:"witnesses"`
	}
	if json.Unmarshal(b, &reg) != nil {
		return false, ""
	}
	detail := ""
	for _, e := range reg.Witnesses {
		fnRe, err1 := regexp.Compile(e.Fn)
		nameRe, err2 := regexp.Compile(e.Name)
		if err1 != nil || err2 != nil || !fnRe.MatchString(ob.Fn) || !nameRe.MatchString(ob.Name) {
			continue
		}
		src, err := os.ReadFile(filepath.Join(verifDir(), "findings", e.File))
		if err != nil {
			continue
		}
		sub := map[string]interface{}{}
		ok, d := runOverlayTest(sub, e.Pkg, "zz_govc_witness_test.go", string(src), e.Run)
		if ok {
			for k, v := range sub {
				rep[k] = v
			}
			rep["witness"] = "findings/" + e.File
			return true, "witness findings/" + e.File + " (" + e.Run + "): " + d
		}
		detail = "witness findings/" + e.File + ": " + d
	}
	return false, detail
}

// witnessChecksFor (thorough tier): every witness of the registry and every value-level replay test whose function is
// among the roots of the property is run against the tree under check, whether or not an obligation failed. They are
// not proof - they are a cross-check of the contracts against the real code: a scenario that fails on a tree whose
// obligations all hold means the contracts (or the engine) missed something, and is reported as a violation with the
// failing input.
func witnessChecksFor(w *World, roots []*Contract) []*LemmaResult {
	b, err := os.ReadFile(filepath.Join(verifDir(), "findings", "registry.json"))
	var reg struct {
		Witnesses []witnessEntry `json:"witnesses"`
	}
	if err == nil {
		_ = json.Unmarshal(b, &reg)
	}
	var out []*LemmaResult
	seen := map[string]bool{}
	add := func(name string, failed bool, rep map[string]interface{}) {
		if seen[name] {
			return
		}
		seen[name] = true
		ob := &Obligation{Name: "witness:" + name, Fn: "witness", Kind: "witness", Pos: name, Goal: name, Solver: "go test -overlay", Status: "discharged"}
		if failed {
			ob.Status = "failed"
			ob.Model = fmt.Sprint(rep["replay_output"])
		}
		out = append(out, &LemmaResult{Name: "witness:" + name, Script: "; witness scenario " + name + "\n; " + fmt.Sprint(rep["replay_cmd"]), Ob: ob, Decided: true})
	}
	for _, e := range reg.Witnesses {
		fnRe, err := regexp.Compile(e.Fn)
		if err != nil {
			continue
		}
		hit := false
		for _, c := range roots {
			if fnRe.MatchString(c.Rel) {
				hit = true
				break
			}
		}
		if !hit || seen[e.File+":"+e.Run] {
			continue
		}
		src, err := os.ReadFile(filepath.Join(verifDir(), "findings", e.File))
		if err != nil {
			continue
		}
		rep := map[string]interface{}{}
		failed, _ := runOverlayTest(rep, e.Pkg, "zz_govc_witness_test.go", string(src), e.Run)
		if !failed && strings.Contains(fmt.Sprint(rep["replay_output"]), "[build failed]") {
			continue // a witness that no longer builds says nothing
		}
		add(e.File+":"+e.Run, failed, rep)
	}
	for _, c := range roots {
		rep := map[string]interface{}{}
		failed, detail := replayValidator(w, &Obligation{Fn: c.Rel, Kind: "post"}, rep)
		if detail == "" {
			continue
		}
		if !failed && strings.Contains(fmt.Sprint(rep["replay_output"]), "[build failed]") {
			continue
		}
		add(filepath.Base(fmt.Sprint(rep["replay_source"])), failed, rep)
	}
	return out
}
