package main

import (
	"encoding/json"
	"os"
	"path/filepath"
	"regexp"
)

// Driver R3: witness replays. /verif/findings/registry.json names, for obligations that exposed a defect earlier, the
// test that demonstrated it on the real code. When such an obligation fails again (the defect is back, or a change
// broke the same clause in another way), the witness is injected into the tree under check with go test -overlay and
// run; if it fails there, the violation is reproduced with the concrete input the test prints. A witness that passes
// proves nothing either way: the violation is then reported with no-failing-input-found as before.
type witnessEntry struct {
	Fn   string `json:"fn"`
	Name string `json:"name"`
	Pkg  string `json:"pkg"`
	File string `json:"file"`
	Run  string `json:"run"`
}

func init() {
	replayDrivers = append(replayDrivers, replayWitness)
}

func replayWitness(w *World, ob *Obligation, rep map[string]interface{}) (bool, string) {
	b, err := os.ReadFile(filepath.Join(verifDir(), "findings", "registry.json"))
	if err != nil {
		return false, ""
	}
	var reg struct {
		Witnesses []witnessEntry `json:"witnesses"`
	}
	if json.Unmarshal(b, &reg) != nil {
		return false, ""
	}
	detail := ""
	for _, e := range reg.Witnesses {
		fnRe, err1 := regexp.Compile(e.Fn)
		nameRe, err2 := regexp.Compile(e.Name)
		if err1 != nil || err2 != nil || !fnRe.MatchString(ob.Fn) || !nameRe.MatchString(ob.Name) {
			continue
		}
		src, err := os.ReadFile(filepath.Join(verifDir(), "findings", e.File))
		if err != nil {
			continue
		}
		sub := map[string]interface{}{}
		ok, d := runOverlayTest(sub, e.Pkg, "zz_govc_witness_test.go", string(src), e.Run)
		if ok {
			for k, v := range sub {
				rep[k] = v
			}
			rep["witness"] = "findings/" + e.File
			return true, "witness findings/" + e.File + " (" + e.Run + "): " + d
		}
		detail = "witness findings/" + e.File + ": " + d
	}
	return false, detail
}
