package main

import (
	"go/token"
	"go/ast"
	"sync"
	"fmt"
	"go/parser"
	"go/types"
	"os"
	"regexp"
	"sort"
	"strings"

	"golang.org/x/tools/go/ssa"
)

const (
	maxInlineDepth  = 4
	maxInlineInstrs = 220
)

func (f *frame) call(at ssa.Instruction, c *ssa.CallCommon, st *State) []T {
	var args []T
	for _, a := range c.Args {
		args = append(args, f.val(a, st))
	}
	var recv T
	if c.IsInvoke() {
		recv = f.val(c.Value, st)
	}
	return f.callWith(at, c, args, recv, st)
}

func resultTypes(sig *types.Signature) []types.Type {
	var ts []types.Type
	for i := 0; i < sig.Results().Len(); i++ {
		ts = append(ts, sig.Results().At(i).Type())
	}
	return ts
}

func (f *frame) freshResults(sig *types.Signature, st *State) []T {
	var rs []T
	for _, t := range resultTypes(sig) {
		rs = append(rs, f.freshVal("ret", t, st))
	}
	return rs
}

func (f *frame) callWith(at ssa.Instruction, c *ssa.CallCommon, args []T, recv T, st *State) []T {
	e := f.e
	sig := c.Signature()
	// ---- interface invoke
	if c.IsInvoke() {
		f.safety(at, "nil-invoke", st, "(not (= (ityp "+recv.S+") 0))")
		key := c.Method.FullName()
		if key == "(error).Error" {
			// the error interface's method: no side effects on verified state (A-EXT)
			return f.freshResults(sig, st)
		}
		if ct := e.db.byIface[key]; ct != nil {
			return f.applyContract(at, ct, append([]T{recv}, args...), st)
		}
		// statically known dynamic type?
		if mi, ok := c.Value.(*ssa.MakeInterface); ok {
			if fn := f.W().Prog.LookupMethod(mi.X.Type(), c.Method.Pkg(), c.Method.Name()); fn != nil {
				return f.staticCall(at, fn, append([]T{f.val(mi.X, st)}, args...), c, st)
			}
		}
		e.note("invoke without interface contract: " + key)
		f.havocOutside(st, c, args, false)
		return f.freshResults(sig, st)
	}
	// ---- builtins
	if b, ok := c.Value.(*ssa.Builtin); ok {
		return f.builtin(at, b, c, args, st)
	}
	// ---- static callee
	if fn := c.StaticCallee(); fn != nil {
		return f.staticCall(at, fn, args, c, st)
	}
	// ---- dynamic call through a function value
	fv := f.val(c.Value, st)
	f.safety(at, "nil-func-call", st, "(not (= "+fv.S+" 0))")
	if ct := e.db.byFuncType[types.TypeString(c.Value.Type(), nil)]; ct != nil {
		return f.applyContract(at, ct, args, st)
	}
	e.note("call through function value in " + relName(f.fn))
	f.havocOutside(st, c, args, true)
	return f.freshResults(sig, st)
}

func (f *frame) staticCall(at ssa.Instruction, fn *ssa.Function, args []T, c *ssa.CallCommon, st *State) []T {
	e := f.e
	name := fn.String()
	sig := fn.Signature
	// sync primitives
	switch name {
	case "(*sync.Mutex).Lock", "(*sync.RWMutex).Lock", "(*sync.RWMutex).RLock":
		f.lock(at, args[0], c, st)
		return nil
	case "(*sync.Mutex).Unlock", "(*sync.RWMutex).Unlock", "(*sync.RWMutex).RUnlock":
		f.unlock(at, args[0], c, st)
		return nil
	}
	if strings.HasSuffix(name, "/pkg/pool.Pool).Parallelize") && len(c.Args) == 3 {
		if rs, ok := f.parallelize(at, c, args, st); ok {
			return rs
		}
	}
	// closures: bind free variables
	if mc, ok := c.Value.(*ssa.MakeClosure); ok {
		return f.inlineOrHavoc(at, fn, args, mc, c, st)
	}
	origin := fn
	if o := fn.Origin(); o != nil {
		origin = o
	}
	ct := e.db.byFunc[name]
	if ct == nil && origin != fn {
		ct = e.db.byFunc[origin.String()]
	}
	if ct != nil && ct.Fn != nil && ct.Inline && !f.inStack(fn) && len(fn.Blocks) > 0 {
		return f.inline(at, fn, args, nil, st)
	}
	if ct != nil && ct.Fn != nil {
		if ict, recvT := f.ifaceContractFor(fn); ict != nil && len(args) > 0 && args[0].Sort == "Int" && !ct.Trusted {
			// the method has its own (refinement) contract AND implements a contracted interface method of its package:
			// its preconditions are checked here, its effect is the interface contract's (the value-level clauses are the
			// definition of the abstraction; the concrete contract proves the no-panic/structural part against the body)
			env := &specEnv{f: f, vars: map[string]T{}, cur: st, old: st, pkg: ct.Pkg, lets: ct.Lets}
			for i, n := range ct.ParamNames {
				if i < len(args) {
					t := args[i]
					if t.Go == nil {
						t.Go = ct.ParamTypes[i]
					}
					env.vars[n] = t
					env.vars["v_"+n] = t
				}
			}
			a, pos := f.anchor(at)
			for _, r := range ct.Requires {
				if t, err := env.evalBool(r); err == nil {
					tags := r.Tags
					if tags == nil {
						tags = f.root.tags
					}
					if tags == nil && !f.root.nopanic {
						e.assume(implies(st.cond, t))
						continue
					}
					e.addOb("pre", ct.Rel+":"+r.Text+"|"+a, tags, pos, st.cond, t)
				}
			}
			self := T{"(mk_iface " + fmt.Sprint(e.typeID(recvT)) + " " + args[0].S + ")", "Iface", ict.ParamTypes[0]}
			return f.applyContract(at, ict, append([]T{self}, args[1:]...), st)
		}
		// value-receiver method called through nil pointer wrappers etc. are handled by SSA itself
		return f.applyContract(at, ct, args, st)
	}
	_ = sig
	// a concrete method that implements a contracted interface method of its own package (curve.Scalar/Point,
	// round.Session, ...): the interface contract is what every caller may rely on, also for a static call
	if ict, recvT := f.ifaceContractFor(fn); ict != nil && len(args) > 0 && args[0].Sort == "Int" {
		e.assumed["interface contract used for the static call of "+relName(fn)+" (refinement not checked)"] = true
		self := T{"(mk_iface " + fmt.Sprint(e.typeID(recvT)) + " " + args[0].S + ")", "Iface", ict.ParamTypes[0]}
		return f.applyContract(at, ict, append([]T{self}, args[1:]...), st)
	}
	return f.inlineOrHavoc(at, fn, args, nil, c, st)
}

// ifaceContractFor finds the interface contract that a pointer-receiver method of a module type implements.
func (f *frame) ifaceContractFor(fn *ssa.Function) (*Contract, types.Type) {
	recv := fn.Signature.Recv()
	if recv == nil || fn.Pkg == nil {
		return nil, nil
	}
	if _, isPtr := recv.Type().(*types.Pointer); !isPtr {
		return nil, nil
	}
	var keys []string
	for k := range f.e.db.byIface {
		if strings.HasSuffix(k, ")."+fn.Name()) {
			keys = append(keys, k)
		}
	}
	sort.Strings(keys)
	for _, k := range keys {
		ct := f.e.db.byIface[k]
		if len(ct.ParamTypes) == 0 {
			continue
		}
		named, ok := ct.ParamTypes[0].(*types.Named)
		if !ok || named.Obj().Pkg() == nil || named.Obj().Pkg() != fn.Pkg.Pkg {
			continue
		}
		it, ok := named.Underlying().(*types.Interface)
		if !ok || !types.Implements(recv.Type(), it) {
			continue
		}
		return ct, recv.Type()
	}
	return nil, nil
}

func (f *frame) inStack(fn *ssa.Function) bool {
	for _, s := range f.stack {
		if s == fn {
			return true
		}
	}
	return fn == f.fn
}

func countInstrs(fn *ssa.Function) int {
	n := 0
	for _, b := range fn.Blocks {
		n += len(b.Instrs)
	}
	return n
}

func (f *frame) inlineOrHavoc(at ssa.Instruction, fn *ssa.Function, args []T, mc *ssa.MakeClosure, c *ssa.CallCommon, st *State) []T {
	e := f.e
	inModule := fn.Pkg != nil && strings.HasPrefix(fn.Pkg.Pkg.Path(), modPath)
	if fn.Pkg == nil && fn.Origin() != nil && fn.Origin().Pkg != nil {
		inModule = strings.HasPrefix(fn.Origin().Pkg.Pkg.Path(), modPath)
	}
	if fn.Parent() != nil { // closure
		p := fn.Parent()
		for p.Parent() != nil {
			p = p.Parent()
		}
		inModule = p.Pkg != nil && strings.HasPrefix(p.Pkg.Pkg.Path(), modPath)
	}
	if len(fn.Blocks) > 0 && inModule && !f.inStack(fn) && f.depth < maxInlineDepth && countInstrs(fn) <= maxInlineInstrs {
		return f.inline(at, fn, args, mc, st)
	}
	// wrappers ("$bound", "$thunk") and synthetic functions: also inline when small
	if len(fn.Blocks) > 0 && fn.Synthetic != "" && !f.inStack(fn) && f.depth < maxInlineDepth && countInstrs(fn) <= 60 {
		return f.inline(at, fn, args, mc, st)
	}
	sig := fn.Signature
	if inModule {
		if os.Getenv("GOVC_DEBUG") != "" {
			fmt.Fprintf(os.Stderr, "not inlined: %s blocks=%d instack=%v depth=%d instrs=%d\n", relName(fn), len(fn.Blocks), f.inStack(fn), f.depth, countInstrs(fn))
		}
		e.note("module function without contract, not inlined (havoc): " + relName(fn))
		samePkg := fn.Pkg != nil && f.root.fn.Pkg != nil && fn.Pkg == f.root.fn.Pkg
		if samePkg {
			e.havocChans = true
			e.havocClass(st, 0)
			e.havocChans = false
			e.havocClass(st, 1)
			f.bumpW(st)
			return f.freshResults(sig, st)
		}
	} else {
		if rs, ok := f.numLibCall(at, fn, args, c, st); ok {
			return rs
		}
		e.assumed["A-EXT: "+fn.String()] = true
	}
	f.havocOutside(st, c, args, false)
	return f.freshResults(sig, st)
}

// Big-number libraries (A-LIB-NUM): a method panics on a nil receiver or nil pointer argument
// (obligation), computes on objects whose contents are not modelled, may write into byte slices
// it is given, and returns non-nil pointers except for the listed functions.
var numLibPkgs = map[string]bool{"github.com/cronokirby/saferith": true, "math/big": true}

// arguments (by index, receiver = 0) that may be nil
var numLibNilOK = map[string]map[int]bool{
	"(*math/big.Int).GCD": {1: true, 2: true},
	"(*math/big.Int).Exp": {3: true},
}

var numLibMayReturnNil = map[string]bool{
	"(*math/big.Int).ModInverse": true, "(*math/big.Int).ModSqrt": true, "(*math/big.Int).SetString": true,
	"(*math/big.Int).Sqrt": false,
}

func (f *frame) numLibCall(at ssa.Instruction, fn *ssa.Function, args []T, c *ssa.CallCommon, st *State) ([]T, bool) {
	e := f.e
	if fn.Pkg == nil || !numLibPkgs[fn.Pkg.Pkg.Path()] {
		return nil, false
	}
	name := fn.String()
	e.assumed["A-LIB-NUM: "+name] = true
	sig := fn.Signature
	for i, a := range args {
		if i >= len(c.Args) {
			break
		}
		if _, ok := c.Args[i].Type().Underlying().(*types.Pointer); !ok {
			continue
		}
		if numLibNilOK[name][i] {
			continue
		}
		f.safety(at, "lib-nil-arg", st, "(not (= "+a.S+" 0))")
	}
	// byte slices handed over to these methods are written
	writes := map[string]bool{"FillBytes": true, "Read": true}
	for i, a := range args {
		if !writes[fn.Name()] {
			break
		}
		if i >= len(c.Args) {
			break
		}
		if sl, ok := c.Args[i].Type().Underlying().(*types.Slice); ok {
			if h, hs := f.elemHeap(sl.Elem()); h != "" {
				oldH := e.H(st, h, hs)
				fr := e.fresh("elems", "(Array Int "+e.sortOf(sl.Elem())+")")
				e.setHeap(st, h, hs, "(store "+oldH+" "+sarrOf(a.S)+" "+fr+")")
			}

		}
	}
	f.bumpW(st)
	rs := f.freshResults(sig, st)
	// abstract content of produced byte strings: a function of the number object (identity based)
	e.declFun("bytesval", []string{"(Array Int Int)", "Int", "Int"}, "Int")
	if n := fn.Name(); (n == "Bytes" || n == "MarshalBinary") && len(rs) >= 1 && rs[0].Sort == "Slice" && len(args) > 0 {
		e.declFun("nbytes", []string{"Int"}, "Int")
		h, hs := f.elemHeap(types.Typ[types.Uint8])
		e.assume(implies(st.cond, "(= (bytesval (select "+e.H(st, h, hs)+" (sarr "+rs[0].S+")) (soff "+rs[0].S+") (slen "+rs[0].S+")) (nbytes "+args[0].S+"))"))
	}
	if fn.Name() == "FillBytes" && len(args) == 2 && args[1].Sort == "Slice" {
		e.declFun("nfill", []string{"Int", "Int"}, "Int")
		h, hs := f.elemHeap(types.Typ[types.Uint8])
		e.assume(implies(st.cond, "(= (bytesval (select "+e.H(st, h, hs)+" (sarr "+args[1].S+")) (soff "+args[1].S+") (slen "+args[1].S+")) (nfill "+args[0].S+" (slen "+args[1].S+")))"))
	}
	if n := fn.Name(); n == "BitLen" || n == "TrueLen" || n == "AnnouncedLen" {
		if len(rs) == 1 && rs[0].Sort == "Int" {
			e.assume(implies(st.cond, "(>= "+rs[0].S+" 0)"))
		}
	}
	for i, r := range rs {
		if _, ok := sig.Results().At(i).Type().Underlying().(*types.Pointer); ok && !numLibMayReturnNil[name] {
			e.assume(implies(st.cond, "(not (= "+r.S+" 0))"))
		}
	}
	return rs, true
}

func (f *frame) bumpW(st *State) {
	e := f.e
	w0 := e.H(st, "W", "Int")
	e.havoc(st, "W")
	e.assume(implies(st.cond, "(>= "+e.H(st, "W", "Int")+" "+w0+")"))
}

// inline executes the callee body in the caller's SMT context.
func (f *frame) inline(at ssa.Instruction, fn *ssa.Function, args []T, mc *ssa.MakeClosure, st *State) []T {
	e := f.e
	g := &frame{e: e, fn: fn, vals: map[ssa.Value]T{}, addrs: map[ssa.Value]Addr{}, tuples: map[ssa.Value][]T{},
		depth: f.depth + 1, stack: append(append([]*ssa.Function{}, f.stack...), f.fn), root: f.root,
		pinv: map[*ssa.BasicBlock]*pendInv{}}
	for i, p := range fn.Params {
		if i < len(args) {
			a := args[i]
			a.Go = p.Type()
			g.vals[p] = a
		}
	}
	if mc != nil {
		for i, fv := range fn.FreeVars {
			if i < len(mc.Bindings) {
				g.vals[fv] = f.val(mc.Bindings[i], st)
				if a, ok := f.addrs[mc.Bindings[i]]; ok {
					g.addrs[fv] = a
				}
			}
		}
	} else {
		for _, fv := range fn.FreeVars {
			g.vals[fv] = g.freshVal("freevar", fv.Type(), st)
		}
	}
	g.ct = e.db.byFunc[fn.String()]
	entry := st.clone()
	g.run(entry)
	// merge returns into the caller's state
	if len(g.rets) == 0 {
		st.cond = "false"
		return f.freshResults(fn.Signature, st)
	}
	var eds []edge
	for _, r := range g.rets {
		eds = append(eds, edge{r.cond, r.st})
	}
	m := e.merge(eds)
	*st = *m
	var out []T
	for i, t := range resultTypes(fn.Signature) {
		if len(g.rets) == 1 {
			out = append(out, g.rets[0].vals[i])
			continue
		}
		srt := e.sortOf(t)
		n := e.fresh("iret", srt)
		for _, r := range g.rets {
			e.assume(implies(r.cond, eq(n, r.vals[i].S)))
		}
		out = append(out, T{n, srt, t})
	}
	return out
}

// ------------------------------------------------------------------ locks

func (f *frame) mutexKeys(m ssa.Value) (structKey, field string) {
	// m is &x.mtx : FieldAddr
	if fa, ok := m.(*ssa.FieldAddr); ok {
		S := fa.X.Type().Underlying().(*types.Pointer).Elem()
		return f.e.structKey(S), S.Underlying().(*types.Struct).Field(fa.Field).Name()
	}
	return "", ""
}

func (f *frame) lock(at ssa.Instruction, m T, c *ssa.CallCommon, st *State) {
	e := f.e
	a, pos := f.anchor(at)
	// HELD: the mutex is locked by this thread; EXCL: this thread has exclusive access to what it guards
	// (it holds the lock, or the object is its own fresh, still unshared allocation)
	held := "(select " + e.H(st, "HELD", "(Array Int Bool)") + " " + m.S + ")"
	e.addOb("lock-reentry", a, f.lockTags(c), pos, st.cond, not(held))
	if f.root.ct == nil || !f.root.ct.Sequential {
		// other threads may have changed everything reachable from shared state
		e.havocChans = true
		e.havocClass(st, 0)
		e.havocChans = false
		e.havocClass(st, 1)
		f.bumpW(st)
	}
	ex := e.H(st, "EXCL", "(Array Int Bool)")
	e.setHeap(st, "EXCL", "(Array Int Bool)", "(store "+ex+" "+m.S+" true)")
	e.setHeap(st, "HELD", "(Array Int Bool)", "(store "+e.H(st, "HELD", "(Array Int Bool)")+" "+m.S+" true)")
	// parameters and earlier values remain allocated
	sk, mf := "", ""
	if len(c.Args) > 0 {
		sk, mf = f.mutexKeys(c.Args[0])
	}
	if inv := e.db.lockinv[sk+"."+mf]; inv != nil {
		if fa, ok := c.Args[0].(*ssa.FieldAddr); ok {
			self := f.val(fa.X, st)
			env := f.specEnv(st)
			env.pkg = e.db.lockinvP[sk+"."+mf]
			env = env.bind("self", self)
			t, err := env.evalBool(inv)
			if err != nil {
				e.note("lockinv eval: " + err.Error())
			} else {
				e.assume(implies(st.cond, t))
			}
		}
	}
	if f.root.lockSt == nil && f == f.root {
		f.root.lockSt = st.clone()
	}
}

func (f *frame) lockTags(c *ssa.CallCommon) []string {
	if len(c.Args) > 0 {
		sk, _ := f.mutexKeys(c.Args[0])
		if t := f.e.db.guardTags[sk]; t != nil {
			return t
		}
	}
	return f.root.tags
}

func (f *frame) unlock(at ssa.Instruction, m T, c *ssa.CallCommon, st *State) {
	e := f.e
	a, pos := f.anchor(at)
	held := "(select " + e.H(st, "HELD", "(Array Int Bool)") + " " + m.S + ")"
	e.addOb("unlock-not-held", a, f.lockTags(c), pos, st.cond, held)
	sk, mf := "", ""
	if len(c.Args) > 0 {
		sk, mf = f.mutexKeys(c.Args[0])
	}
	if inv := e.db.lockinv[sk+"."+mf]; inv != nil {
		if fa, ok := c.Args[0].(*ssa.FieldAddr); ok {
			self := f.val(fa.X, st)
			env := f.specEnv(st)
			env.pkg = e.db.lockinvP[sk+"."+mf]
			env = env.bind("self", self)
			t, err := env.evalBool(inv)
			if err != nil {
				e.note("lockinv eval: " + err.Error())
			} else {
				e.addOb("lockinv", inv.Text+"|"+a, inv.Tags, pos, st.cond, t)
			}
		}
	}
	ex := e.H(st, "EXCL", "(Array Int Bool)")
	e.setHeap(st, "EXCL", "(Array Int Bool)", "(store "+ex+" "+m.S+" false)")
	e.setHeap(st, "HELD", "(Array Int Bool)", "(store "+e.H(st, "HELD", "(Array Int Bool)")+" "+m.S+" false)")
}

// ------------------------------------------------------------------ framing

// reachesPriv reports whether a value of static type t can give access to a struct of the root's package.
func (f *frame) reachesPriv(t types.Type, seen map[types.Type]bool) bool {
	if seen[t] {
		return false
	}
	seen[t] = true
	switch u := t.(type) {
	case *types.Named:
		if st, ok := u.Underlying().(*types.Struct); ok {
			if f.e.isPriv(u) {
				return true
			}
			for i := 0; i < st.NumFields(); i++ {
				if f.reachesPriv(st.Field(i).Type(), seen) {
					return true
				}
			}
			return false
		}
		return f.reachesPriv(u.Underlying(), seen)
	case *types.Pointer:
		return f.reachesPriv(u.Elem(), seen)
	case *types.Slice:
		return f.reachesPriv(u.Elem(), seen)
	case *types.Array:
		return f.reachesPriv(u.Elem(), seen)
	case *types.Map:
		return f.reachesPriv(u.Key(), seen) || f.reachesPriv(u.Elem(), seen)
	case *types.Chan:
		return f.reachesPriv(u.Elem(), seen)
	case *types.Struct:
		for i := 0; i < u.NumFields(); i++ {
			if f.reachesPriv(u.Field(i).Type(), seen) {
				return true
			}
		}
	}
	return false
}

func reachesChan(t types.Type, seen map[types.Type]bool) bool {
	if seen[t] {
		return false
	}
	seen[t] = true
	switch u := t.Underlying().(type) {
	case *types.Chan:
		return true
	case *types.Pointer:
		return reachesChan(u.Elem(), seen)
	case *types.Slice:
		return reachesChan(u.Elem(), seen)
	case *types.Array:
		return reachesChan(u.Elem(), seen)
	case *types.Map:
		return reachesChan(u.Key(), seen) || reachesChan(u.Elem(), seen)
	case *types.Struct:
		for i := 0; i < u.NumFields(); i++ {
			if reachesChan(u.Field(i).Type(), seen) {
				return true
			}
		}
	}
	return false
}

// havocOutside models a call to code outside the root's package without a contract:
// everything not owned by the root's package may change (assumption A-OWN: state reachable
// only through fields of the package's own struct types is not touched unless handed over).
func (f *frame) havocOutside(st *State, c *ssa.CallCommon, args []T, all bool) {
	e := f.e
	privToo := all
	unknownPriv := all        // something of unknown shape was handed over (closure, function value, unknown boxing)
	var handed []types.Type   // known types through which objects of the root's package were handed over
	if c != nil {
		vals := append([]ssa.Value{}, c.Args...)
		if !c.IsInvoke() {
			vals = append(vals, c.Value)
		}
		for ai, a := range vals {
			if a == nil {
				continue
			}
			t := a.Type()
			if mi, ok := a.(*ssa.MakeInterface); ok {
				t = mi.X.Type()
			} else if _, isI := t.Underlying().(*types.Interface); isI && ai < len(args) {
				// an interface-typed argument (e.g. the parameter of an inlined helper that forwards it): its dynamic
				// type is visible when the value is a known boxing (mk_iface <type id> <ref>); otherwise, for the empty
				// interface, anything may be inside -- also an object of the root's package (handed over: it may change)
				if m := mkIfaceRe.FindStringSubmatch(args[ai].S); m != nil {
					var id int
					fmt.Sscanf(m[1], "%d", &id)
					if dt, ok := e.knownTypes()[id]; ok {
						t = dt
					}
				} else if t.Underlying().(*types.Interface).NumMethods() == 0 {
					privToo = true
					unknownPriv = true
				}
			}
			if _, ok := a.(*ssa.MakeClosure); ok {
				privToo = true
				unknownPriv = true
			}
			if _, ok := t.Underlying().(*types.Signature); ok {
				if _, isFn := a.(*ssa.Function); !isFn {
					privToo = true
					unknownPriv = true
				}
			}
			if f.reachesPriv(t, map[types.Type]bool{}) {
				privToo = true
				handed = append(handed, t)
			}
			// addresses of fields handed to the callee
			if ad, ok := f.addrs[a]; ok {
				switch ad := ad.(type) {
				case fieldAddr:
					e.heapSort[ad.heap] = ad.sort
					defer e.havoc(st, ad.heap)
				}
			}
		}
	}
	old := st.clone()
	if c != nil {
		for _, a := range c.Args {
			if reachesChan(a.Type(), map[types.Type]bool{}) {
				e.havocChans = true
			}
		}
	}
	e.preserving = !privToo
	// A-OWN (type-based part): a callee outside the package cannot write map types that only the package writes
	e.keepOwn = !privToo
	e.havocClass(st, 0)
	e.keepOwn = false
	e.preserving = false
	e.havocChans = false
	if privToo {
		if unknownPriv {
			e.havocClass(st, 1)
		} else {
			// only objects reachable from what was handed over can change: field heaps of the struct types the handed
			// types reach (type-based; the rest of the package's state keeps its contents)
			keys := map[string]bool{}
			for _, t := range handed {
				f.collectStructKeys(t, keys, map[types.Type]bool{})
			}
			var names []string
			for n := range e.heapSort {
				if e.class(n) == 1 && strings.HasPrefix(n, "H_") {
					names = append(names, n)
				}
			}
			sort.Strings(names)
			for _, n := range names {
				for k := range keys {
					if strings.HasPrefix(n, "H_"+k+"_") {
						e.havoc(st, n)
						break
					}
				}
			}
		}
	}
	// allocation watermark only grows; EXCL is thread-local ghost state
	e.assume(implies(st.cond, "(>= "+e.H(st, "W", "Int")+" "+e.H(old, "W", "Int")+")"))
	if privToo {
		return
	}
	// A-OWN: objects referenced from the package's own fields keep their contents
	f.preserve(old, st, nil)
}

// ownMapHeaps lists the (declared) map heaps of map types written only by the root's package.
func (f *frame) ownMapHeaps() []string {
	e := f.e
	if e.privPkg == "" || f.root.fn.Pkg == nil {
		return nil
	}
	rootPath := f.root.fn.Pkg.Pkg.Path()
	var out []string
	for k, pkgs := range mapWriters(f.W()) {
		if len(pkgs) == 1 && pkgs[rootPath] {
			if mt := mapWriterTypes[k]; mt != nil {
				// declare the heaps even if this function has not mentioned them yet (lazy declaration would
				// otherwise let a later first use see the post-call version)
				d, ds, v, vs := f.mapHeaps(mt)
				e.heapSort[d], e.heapSort[v] = ds, vs
				out = append(out, d, v)
			}
		}
	}
	sort.Strings(out)
	return out
}

var (
	mapWritersOnce sync.Once
	mapWritersTab  map[string]map[string]bool
	mapWriterTypes = map[string]*types.Map{}
)

// mapWriters returns, per map type key, the packages containing an instruction that writes a map of that type.
func mapWriters(w *World) map[string]map[string]bool {
	mapWritersOnce.Do(func() {
		tab := map[string]map[string]bool{}
		add := func(t types.Type, fn *ssa.Function) {
			mt, ok := t.Underlying().(*types.Map)
			if !ok {
				return
			}
			p := ""
			for g := fn; g != nil && p == ""; g = g.Parent() {
				if g.Pkg != nil {
					p = g.Pkg.Pkg.Path()
				} else if o := g.Origin(); o != nil && o.Pkg != nil {
					p = o.Pkg.Pkg.Path()
				}
			}
			k := typeKey(mt)
			if tab[k] == nil {
				tab[k] = map[string]bool{}
				mapWriterTypes[k] = mt
			}
			tab[k][p] = true
		}
		for _, fn := range w.Funcs {
			for _, b := range fn.Blocks {
				for _, ins := range b.Instrs {
					switch i := ins.(type) {
					case *ssa.MapUpdate:
						add(i.Map.Type(), fn)
					case ssa.CallInstruction:
						if bi, ok := i.Common().Value.(*ssa.Builtin); ok && (bi.Name() == "delete" || bi.Name() == "clear") && len(i.Common().Args) > 0 {
							add(i.Common().Args[0].Type(), fn)
						}
					}
				}
			}
		}
		mapWritersTab = tab
	})
	return mapWritersTab
}

// collectReach records the map/slice/chan/pointer types reachable from t through concrete types.
func collectReach(t types.Type, out map[string]bool, seen map[types.Type]bool) {
	if seen[t] {
		return
	}
	seen[t] = true
	switch u := t.Underlying().(type) {
	case *types.Pointer:
		out[types.TypeString(t, nil)] = true
		collectReach(u.Elem(), out, seen)
	case *types.Slice:
		out[types.TypeString(t, nil)] = true
		collectReach(u.Elem(), out, seen)
	case *types.Array:
		collectReach(u.Elem(), out, seen)
	case *types.Map:
		out[types.TypeString(t, nil)] = true
		collectReach(u.Key(), out, seen)
		collectReach(u.Elem(), out, seen)
	case *types.Chan:
		out[types.TypeString(t, nil)] = true
		collectReach(u.Elem(), out, seen)
	case *types.Struct:
		for i := 0; i < u.NumFields(); i++ {
			collectReach(u.Field(i).Type(), out, seen)
		}
	}
}

func (f *frame) preserveIf(old, st *State, keep func(T) bool) {
	e := f.e
	saved := e.prot
	var sel []T
	for _, p := range saved {
		if keep(p) {
			sel = append(sel, p)
		}
	}
	e.prot = sel
	f.preserve(old, st, nil)
	e.prot = saved
}

// preserve asserts that protected references keep their contents between old and st,
// except heaps listed in skip.
func (f *frame) preserve(old, st *State, skip map[string]bool) {
	e := f.e
	for _, p := range e.prot {
		switch u := p.Go.Underlying().(type) {
		case *types.Map:
			d, ds, v, vs := f.mapHeaps(u)
			for _, hs := range [][2]string{{d, ds}, {v, vs}} {
				if skip[hs[0]] || e.ver(old, hs[0]) == e.ver(st, hs[0]) {
					continue
				}
				e.assume("(= (select " + e.H(st, hs[0], hs[1]) + " " + p.S + ") (select " + e.H(old, hs[0], hs[1]) + " " + p.S + "))")
			}
		case *types.Chan:
			for _, hs := range [][2]string{{"CH_closed", chClosedSort}, {"CH_len", chLenSort}} {
				if skip[hs[0]] || e.ver(old, hs[0]) == e.ver(st, hs[0]) {
					continue
				}
				e.assume("(= (select " + e.H(st, hs[0], hs[1]) + " " + p.S + ") (select " + e.H(old, hs[0], hs[1]) + " " + p.S + "))")
			}
		case *types.Slice:
			if h, hs := f.elemHeap(u.Elem()); h != "" && !skip[h] && e.ver(old, h) != e.ver(st, h) {
				e.assume("(= (select " + e.H(st, h, hs) + " (sarr " + p.S + ")) (select " + e.H(old, h, hs) + " (sarr " + p.S + ")))")
			}
		}
	}
}

// ------------------------------------------------------------------ contracts at call sites

func (f *frame) applyContract(at ssa.Instruction, ct *Contract, args []T, st *State) []T {
	e := f.e
	a, pos := f.anchor(at)
	for _, t := range ct.Assumes {
		e.assumed[t] = true
	}
	if ct.IsIface && len(ct.Ensures)+len(ct.Summary) > 0 {
		if ct.Refined {
			e.assumed["interface contract of "+ct.Key+" assumed at calls through the interface; every contracted implementation in the module is checked against its ensures clauses (obligations of kind refine), its summary clauses are assumed"] = true
		} else {
			e.assumed["interface contract of "+ct.Key+" assumed at calls through the interface; the module's implementations restate and prove its clauses by hand (refinement is not machine-checked)"] = true
		}
	}
	env := &specEnv{f: f, vars: map[string]T{}, cur: st, old: st, pkg: ct.Pkg, lets: ct.Lets}
	for i, n := range ct.ParamNames {
		if i < len(args) {
			t := args[i]
			if t.Go == nil || ct.IsIface {
				t.Go = ct.ParamTypes[i]
			}
			env.vars[n] = t
			env.vars["v_"+n] = t // alias for names that clash with spec keywords (result, old, ...)
		}
	}
	short := ct.Rel
	if ct.PanicsIff != nil {
		// the callee panics exactly under this condition: a caller that must not panic has to exclude it
		if t, err := env.evalBool(ct.PanicsIff); err == nil {
			own := ""
			if f == f.root && f.ct != nil && f.ct.PanicsIff != nil {
				oenv := f.specEnv(f.entrySt)
				oenv.pkg = f.ct.Pkg
				if o, err := oenv.evalBool(f.ct.PanicsIff); err == nil {
					own = o
				}
			}
			if own != "" {
				// the caller declares its own panic domain: the callee's panic must fall inside it, and the
				// execution continues only where the callee did not panic
				an, pos := f.anchor(at)
				e.addOb("panics-only-if", f.ct.PanicsIff.Text+"|"+an, f.ct.PanicsIff.Tags, pos, and(st.cond, t), own)
				st.cond = and(st.cond, not(t))
			} else {
				f.safety(at, "callee-panics", st, not(t))
			}
		} else {
			e.note("panics_iff eval at call: " + err.Error())
		}
	}
	if ct.MayPanic && !hasRecoverDefer(f.fn) && f.panicProneTarget(at) {
		f.safety(at, "callee-may-panic", st, "false")
	}
	for _, r := range ct.Requires {
		t, err := env.evalBool(r)
		if err != nil {
			e.note("requires eval: " + err.Error())
			continue
		}
		tags := r.Tags
		if len(tags) > 0 && strings.HasPrefix(tags[0], "A-") {
			// a precondition that rests on a named assumption (e.g. A-RAND: a sampled value is non-zero): callers do
			// not prove it; it is assumed at the call site and listed
			e.assumed[tags[0]+": precondition of "+ct.Rel+" assumed at call sites: "+r.Text] = true
			e.assume(implies(st.cond, t))
			continue
		}
		if tags == nil {
			tags = f.root.tags
		}
		if tags == nil && !f.root.nopanic {
			// a root without a nopanic clause claims only its tagged clauses: callee preconditions are assumed
			// (and listed), exactly like the language-level safety conditions
			e.assumed["callee preconditions not checked in "+f.root.ct.Rel+" (no nopanic clause)"] = true
			e.assume(implies(st.cond, t))
			continue
		}
		if ct.Trusted && (ct.Fn == nil || ct.Fn.Pkg == nil || !strings.HasPrefix(ct.Fn.Pkg.Pkg.Path(), modPath)) && r.Tags == nil && f.recoveredAt(at) {
			// a library function whose precondition stands for "panics otherwise", called where a deferred recover()
			// catches the panic: the caller still returns normally
			e.note("panics recovered by a deferred recover() in " + relName(f.root.fn) + " are not obligations")
			e.assume(implies(st.cond, t))
			continue
		}
		e.addOb("pre", short+":"+r.Text+"|"+a, tags, pos, st.cond, t)
	}
	if f.root.nopanic && !ct.NoPanic && !ct.Trusted && !ct.IsIface {
		e.assumed["nopanic-unchecked: "+ct.Rel] = true
	}
	old := st.clone()
	// frame
	switch {
	case ct.Pure || (ct.ModifiesSet && len(ct.Modifies) == 0):
		if ct.Allocates {
			f.bumpW(st)
		}
	case ct.ModifiesSet:
		for _, m := range ct.Modifies {
			switch m {
			case "shared":
				// A-OWN applies only to code that cannot reach the root package's own objects
				pres := !f.calleeInRootPkg(ct)
				e.preserving = pres
				e.keepOwn = pres || ct.KeepOwnMaps
				e.havocClass(st, 0)
				e.keepOwn = false
				e.preserving = false
				if pres {
					f.preserve(old, st, nil)
				} else {
					// same-package callee: it can only touch owned objects whose type is reachable
					// from its (non-interface) parameter types
					reach := map[string]bool{}
					for i, pt := range ct.ParamTypes {
						collectReach(pt, reach, map[types.Type]bool{})
						if ci, ok := at.(ssa.CallInstruction); ok {
							as := ci.Common().Args
							if i < len(as) {
								if mi, ok := as[i].(*ssa.MakeInterface); ok {
									collectReach(mi.X.Type(), reach, map[types.Type]bool{})
								}
							}
						}
					}
					f.preserveIf(old, st, func(p T) bool { return !reach[types.TypeString(p.Go, nil)] })
				}
			case "all":
				e.havocChans = true
				e.keepOwn = ct.KeepOwnMaps
				e.havocClass(st, 0)
				e.keepOwn = false
				e.havocChans = false
				e.havocClass(st, 1)
			default:
				f.havocPattern(st, m, ct, env)
			}
		}
		if ct.Allocates && e.ver(st, "W") == e.ver(old, "W") {
			f.bumpW(st)
		}
		e.assume(implies(st.cond, "(>= "+e.H(st, "W", "Int")+" "+e.H(old, "W", "Int")+")"))
	default:
		samePkg := ct.Fn != nil && ct.Fn.Pkg != nil && f.root.fn.Pkg != nil && ct.Fn.Pkg == f.root.fn.Pkg
		if samePkg {
			e.havocChans = true
			e.havocClass(st, 0)
			e.havocChans = false
			e.havocClass(st, 1)
			e.assume(implies(st.cond, "(>= "+e.H(st, "W", "Int")+" "+e.H(old, "W", "Int")+")"))
		} else {
			var cc *ssa.CallCommon
			if ci, ok := at.(ssa.CallInstruction); ok {
				cc = ci.Common()
			}
			f.havocOutside(st, cc, args, false)
		}
	}
	// results
	var rs []T
	if ct.Pure && ct.IsIface && ct.Sig.Results().Len() == 1 {
		rs = []T{f.pureIfaceCall(ct, args[0], args[1:])}
		e.assume(implies(st.cond, f.facts(rs[0].S, rs[0].Go, st)))
	} else {
		rs = f.freshResults(ct.Sig, st)
	}
	// a result that the contract equates with a parameter unconditionally (ensures result == z && ...) IS that
	// argument: use the argument's term, so that writes through the result are recognised as writes to the argument
	if !(ct.Pure && ct.IsIface) {
		for _, en := range ct.Ensures {
			var walk func(x ast.Expr)
			walk = func(x ast.Expr) {
				switch y := x.(type) {
				case *ast.ParenExpr:
					walk(y.X)
				case *ast.BinaryExpr:
					if y.Op == token.LAND {
						walk(y.X)
						walk(y.Y)
					}
					if y.Op == token.EQL {
						l, lok := y.X.(*ast.Ident)
						r, rok := y.Y.(*ast.Ident)
						if lok && rok {
							k := -1
							if l.Name == "result" || l.Name == "result0" {
								k = 0
							}
							if k == 0 && k < len(rs) && rs[k].Sort == "Int" {
								if a, ok := env.vars[r.Name]; ok && a.Sort == "Int" && r.Name != "result" {
									rs[k] = T{a.S, "Int", rs[k].Go}
								}
							}
						}
					}
				}
			}
			walk(en.Expr)
		}
	}
	penv := &specEnv{f: f, vars: env.vars, cur: st, old: old, pkg: ct.Pkg, lets: ct.Lets, results: rs, resName: ct.ResultNames}
	// results the contract declares fresh unconditionally (a top-level conjunct fresh(result)): writes through them are
	// writes to objects allocated by this call (used by the write analysis of loops and pool closures)
	for _, en := range ct.Ensures {
		var walk func(x ast.Expr)
		walk = func(x ast.Expr) {
			switch y := x.(type) {
			case *ast.ParenExpr:
				walk(y.X)
			case *ast.BinaryExpr:
				if y.Op == token.LAND {
					walk(y.X)
					walk(y.Y)
				}
			case *ast.CallExpr:
				if id, ok := y.Fun.(*ast.Ident); ok && id.Name == "fresh" && len(y.Args) == 1 {
					if a, ok := y.Args[0].(*ast.Ident); ok {
						if t, err := penv.eval(a); err == nil && strings.Contains(t.S, "!") && !strings.Contains(t.S, " ") {
							for _, r := range rs {
								if r.S == t.S {
									if e.freshRes == nil {
										e.freshRes = map[string]bool{}
									}
									e.freshRes[t.S] = true
								}
							}
						}
					}
				}
			}
		}
		walk(en.Expr)
	}
	for _, list := range [][]*SpecExpr{ct.Ensures, ct.Summary} {
		for _, en := range list {
			if mentionsCallGhost(en.Expr) {
				// called()/callcount()/lastresult()... speak about the calls the CALLEE made while it was verified; at a
				// call site the same names denote the caller's own ghosts, so such a clause is not exported -- the
				// ghost-free top-level conjuncts of the clause are
				var conj func(x ast.Expr)
				conj = func(x ast.Expr) {
					switch y := x.(type) {
					case *ast.ParenExpr:
						conj(y.X)
						return
					case *ast.BinaryExpr:
						if y.Op == token.LAND {
							conj(y.X)
							conj(y.Y)
							return
						}
					}
					if mentionsCallGhost(x) {
						return
					}
					if t, err := penv.evalBool(&SpecExpr{Expr: x, Text: en.Text, Src: en.Src, Tags: en.Tags}); err == nil {
						e.assume(implies(st.cond, t))
					}
				}
				conj(en.Expr)
				continue
			}
			t, err := penv.evalBool(en)
			if err != nil {
				e.note("ensures eval: " + err.Error())
				continue
			}
			e.assume(implies(st.cond, t))
		}
	}
	return rs
}

var callGhostFns = map[string]bool{"called": true, "callcount": true, "lastresult": true, "calledwith": true, "lastbytes": true, "visited": true, "visitedset": true}

func mentionsCallGhost(x ast.Expr) bool {
	hit := false
	ast.Inspect(x, func(n ast.Node) bool {
		if c, ok := n.(*ast.CallExpr); ok {
			if id, ok := c.Fun.(*ast.Ident); ok && callGhostFns[id.Name] {
				hit = true
			}
		}
		return !hit
	})
	return hit
}

// calleeInRootPkg: may the callee (or an implementation of the interface method) live in the root's package?
func (f *frame) calleeInRootPkg(ct *Contract) bool {
	rp := f.root.fn.Pkg
	if rp == nil {
		return true
	}
	if ct.Fn != nil {
		return ct.Fn.Pkg == rp
	}
	if ct.IsIface && len(ct.ParamTypes) > 0 {
		it, ok := ct.ParamTypes[0].Underlying().(*types.Interface)
		if !ok {
			return true
		}
		sc := rp.Pkg.Scope()
		for _, n := range sc.Names() {
			tn, ok := sc.Lookup(n).(*types.TypeName)
			if !ok {
				continue
			}
			if types.Implements(tn.Type(), it) || types.Implements(types.NewPointer(tn.Type()), it) {
				return true
			}
		}
		return false
	}
	return true
}

// modAllows reports whether the contract's modifies clause covers heap `name`.
func (e *Enc) modAllows(ct *Contract, name string) bool {
	for _, m := range ct.Modifies {
		switch {
		case m == "all":
			return true
		case m == "shared" && (e.class(name) == 0 || e.class(name) == 3) && name != "CH_closed" && name != "CH_len":
			return true
		case m == "chans" && (name == "CH_closed" || name == "CH_len"):
			return true
		case strings.HasPrefix(m, "heap:") && name == strings.TrimPrefix(m, "heap:"):
			return true
		case strings.HasPrefix(name, "GV_") && strings.HasPrefix(m, strings.TrimPrefix(name, "GV_")+"("):
			return true // per-object ghost update (coarse for the frame check)
		}
		if i := strings.Index(m, "."); i > 0 && ct.Pkg != nil && !strings.HasPrefix(m, "heap:") && !strings.Contains(m, "(") {
			tn, fld := m[:i], m[i+1:]
			if j := strings.Index(fld, "@"); j > 0 {
				continue // per-object clause: handled by frameObligations
			}
			var obj types.Object
			if j := strings.LastIndex(tn, "/"); j >= 0 {
				if p := e.db.findPkg(tn[:j]); p != nil {
					obj = p.Scope().Lookup(tn[j+1:])
				}
			} else {
				obj = ct.Pkg.Scope().Lookup(tn)
			}
			if obj != nil {
				key := e.structKey(obj.Type())
				if fld == "*" && strings.HasPrefix(name, "H_"+key+"_") {
					return true
				}
				if name == "H_"+key+"_"+fld {
					return true
				}
			}
		}
	}
	return false
}

var mkIfaceRe = regexp.MustCompile(`^\(mk_iface (\d+) `)

var mkSliceRe = regexp.MustCompile(`^\(mk_slice (a!\d+) `)

// sarrOf simplifies (sarr (mk_slice a ...)) to a.
func sarrOf(s string) string {
	if m := mkSliceRe.FindStringSubmatch(s); m != nil {
		return m[1]
	}
	return "(sarr " + s + ")"
}

// havocPattern: "T.f" (field heap of struct type T of the contract's package), "maps", "chans", "elems", "W"
func (f *frame) havocPattern(st *State, pat string, ct *Contract, env *specEnv) {
	e := f.e
	switch pat {
	case "chans":
		e.havoc(st, "CH_closed")
		e.havoc(st, "CH_len")
		return
	case "W":
		f.bumpW(st)
		return
	}
	if i := strings.Index(pat, "."); i > 0 && ct.Pkg != nil && !strings.Contains(pat, "(") && !strings.HasPrefix(pat, "heap:") {
		tn, fld := pat[:i], pat[i+1:]
		at := ""
		if j := strings.Index(fld, "@"); j > 0 {
			fld, at = fld[:j], fld[j+1:]
		}
		var obj types.Object
		if j := strings.LastIndex(tn, "/"); j >= 0 {
			// qualified by package path relative to module
			if p := e.db.findPkg(tn[:j]); p != nil {
				obj = p.Scope().Lookup(tn[j+1:])
			}
		} else {
			obj = ct.Pkg.Scope().Lookup(tn)
		}
		if obj == nil {
			e.note("modifies: unknown type " + tn)
			return
		}
		key := e.structKey(obj.Type())
		if fld == "*" {
			us, ok := obj.Type().Underlying().(*types.Struct)
			if !ok {
				return
			}
			for k := 0; k < us.NumFields(); k++ {
				e.havoc(st, "H_"+key+"_"+us.Field(k).Name())
			}
			return
		}
		if at != "" {
			// only the field of the object held by parameter `at`
			v, ok := env.vars[at]
			if !ok {
				// an expression over the parameters, evaluated in the pre-state
				if ex, err := parser.ParseExpr(at); err == nil {
					if t, err := env.eval(ex); err == nil && t.Sort == "Int" {
						v, ok = t, true
					}
				}
			}
			hn := "H_" + key + "_" + fld
			if _, known := e.heapSort[hn]; !known {
				// the field heap has not been touched yet: declare it through its type
				if us, isS := obj.Type().Underlying().(*types.Struct); isS {
					for k := 0; k < us.NumFields(); k++ {
						if us.Field(k).Name() == fld {
							if _, isSub := us.Field(k).Type().Underlying().(*types.Struct); !isSub {
								f.heapOfField(obj.Type(), k)
								hh, hs, _, _ := f.heapOfField(obj.Type(), k)
								e.H(st, hh, hs)
							}
						}
					}
				}
			}
			if srt, known := e.heapSort[hn]; ok && known {
				fr := e.fresh("fld", strings.TrimSuffix(strings.TrimPrefix(srt, "(Array Int "), ")"))
				e.setHeap(st, hn, srt, "(store "+e.H(st, hn, srt)+" "+v.S+" "+fr+")")
				return
			}
		}
		e.havoc(st, "H_"+key+"_"+fld)
		return
	}
	if strings.HasPrefix(pat, "heap:") {
		e.havoc(st, strings.TrimPrefix(pat, "heap:"))
		return
	}
	if strings.HasPrefix(pat, "newobjects:") {
		// the callee fills objects it allocates itself: heap NAME keeps its contents at every reference that existed
		// before the call (the body check allows writes to fresh objects only, since the pattern grants nothing else)
		name := strings.TrimPrefix(pat, "newobjects:")
		srt, known := e.heapSort[name]
		if !known {
			e.note("modifies newobjects: heap " + name + " not in use at the call, treated as modified")
			e.havoc(st, name)
			return
		}
		old := e.H(st, name, srt)
		w0 := e.H(st, "W", "Int")
		e.declFun("owner", []string{"Int"}, "Int")
		e.havoc(st, name)
		nw := e.H(st, name, srt)
		e.assume(implies(st.cond, "(forall ((r Int)) (! (=> (<= (owner r) "+w0+") (= (select "+nw+" r) (select "+old+" r))) :pattern ((select "+nw+" r))))"))
		return
	}
	if strings.HasPrefix(pat, "reach(") && strings.HasSuffix(pat, ")") {
		// everything reachable from the (dynamic) type of an argument: field heaps of the struct types it reaches, the
		// element heaps, the map heaps and the ghost values of numbers/group elements (a decoder fills what its target
		// reaches and nothing else)
		pn := pat[6 : len(pat)-1]
		v, ok := env.vars[pn]
		if !ok {
			e.note("modifies: unknown parameter in " + pat)
			return
		}
		t := v.Go
		if m := mkIfaceRe.FindStringSubmatch(v.S); m != nil {
			var id int
			fmt.Sscanf(m[1], "%d", &id)
			if dt, ok := e.knownTypes()[id]; ok {
				t = dt
			}
		} else if _, isI := t.Underlying().(*types.Interface); isI {
			// unknown dynamic type (a content template obtained from a round): a foreign callee without further
			// knowledge -- everything outside the root package's own objects may change (A-OWN)
			f.havocOutside(st, nil, nil, false)
			return
		}
		keys := map[string]bool{}
		f.collectStructKeys(t, keys, map[types.Type]bool{})
		reachHeaps := map[string]bool{}
		f.collectReachHeaps(t, reachHeaps, map[types.Type]bool{})
		var names []string
		for n := range e.heapSort {
			names = append(names, n)
		}
		sort.Strings(names)
		for _, n := range names {
			switch {
			case reachHeaps[n]:
				e.havoc(st, n)
			case n == "GV_natval" || n == "GV_ptval" || n == "GV_scval" || n == "GV_ctval":
				e.havoc(st, n)
			case strings.HasPrefix(n, "H_"):
				for k := range keys {
					if strings.HasPrefix(n, "H_"+k+"_") {
						e.havoc(st, n)
						break
					}
				}
			}
		}
		f.bumpW(st)
		return
	}
	for _, g := range []string{"ptval", "scval", "natval", "ctval", "wlog", "hstate"} {
		if strings.HasPrefix(pat, g+"(") && strings.HasSuffix(pat, ")") {
			// ghost value of one object changes
			pn := pat[len(g)+1 : len(pat)-1]
			v, ok := env.vars[pn]
			if !ok {
				// an expression over the parameters, evaluated in the pre-state
				if ex, err := parser.ParseExpr(pn); err == nil {
					if t, err := env.eval(ex); err == nil {
						v, ok = t, true
					}
				}
			}
			if !ok {
				e.note("modifies: cannot evaluate " + pn)
				return
			}
			ref := v.S
			if v.Sort == "Iface" {
				ref = "(ival " + v.S + ")"
			}
			h := "GV_" + g
			fr := e.fresh("gv", "Int")
			e.setHeap(st, h, "(Array Int Int)", "(store "+e.H(st, h, "(Array Int Int)")+" "+ref+" "+fr+")")
			return
		}
	}
	if strings.HasPrefix(pat, "elems(") && strings.HasSuffix(pat, ")") {
		// contents of the backing array of a slice parameter
		pn := pat[6 : len(pat)-1]
		v, ok := env.vars[pn]
		if !ok || v.Sort != "Slice" {
			e.note("modifies: elems of unknown slice " + pn)
			return
		}
		stp, ok := v.Go.Underlying().(*types.Slice)
		if !ok {
			return
		}
		if h, hs := f.elemHeap(stp.Elem()); h != "" {
			oldH := e.H(st, h, hs)
			inner := "(Array Int " + e.sortOf(stp.Elem()) + ")"
			fr := e.fresh("elems", inner)
			e.setHeap(st, h, hs, "(store "+oldH+" "+sarrOf(v.S)+" "+fr+")")
		}
		return
	}
	e.note("modifies: unsupported pattern " + pat)
}

// ------------------------------------------------------------------ builtins

func (f *frame) builtin(at ssa.Instruction, b *ssa.Builtin, c *ssa.CallCommon, args []T, st *State) []T {
	e := f.e
	intT := types.Typ[types.Int]
	switch b.Name() {
	case "len":
		x := args[0]
		switch u := c.Args[0].Type().Underlying().(type) {
		case *types.Slice:
			return []T{{"(slen " + x.S + ")", "Int", intT}}
		case *types.Basic:
			return []T{{"(strlen " + x.S + ")", "Int", intT}}
		case *types.Map:
			x.Go = c.Args[0].Type()
			n := e.fresh("maplen", "Int")
			e.assume(eq(n, f.mapLen(x, st)))
			e.assume("(>= " + n + " 0)")
			return []T{{n, "Int", intT}}
		case *types.Chan:
			return []T{{"(select " + e.H(st, "CH_len", chLenSort) + " " + x.S + ")", "Int", intT}}
		case *types.Array:
			return []T{{num(u.Len()), "Int", intT}}
		case *types.Pointer:
			if at, ok := u.Elem().Underlying().(*types.Array); ok {
				return []T{{num(at.Len()), "Int", intT}}
			}
		}
	case "cap":
		x := args[0]
		switch u := c.Args[0].Type().Underlying().(type) {
		case *types.Slice:
			return []T{{"(scap " + x.S + ")", "Int", intT}}
		case *types.Chan:
			e.declFun("chcap", []string{"Int"}, "Int")
			return []T{{"(chcap " + x.S + ")", "Int", intT}}
		case *types.Array:
			return []T{{num(u.Len()), "Int", intT}}
		}
	case "append":
		// result: either in place (cap suffices) or a fresh array; contents of the prefix are kept
		s, t := args[0], args[1]
		stp := c.Args[0].Type().Underlying().(*types.Slice)
		var addLen string
		if t.Sort == "Slice" {
			addLen = "(slen " + t.S + ")"
		} else { // append([]byte, string...)
			addLen = "(strlen " + t.S + ")"
		}
		r := f.freshVal("app", c.Args[0].Type(), st)
		nl := "(+ (slen " + s.S + ") " + addLen + ")"
		a := f.alloc(st)
		inplace := "(<= " + nl + " (scap " + s.S + "))"
		e.assume(implies(st.cond, and("(= (slen "+r.S+") "+nl+")",
			implies(and(inplace, "(not (= (sarr "+s.S+") 0))"), and("(= (sarr "+r.S+") (sarr "+s.S+"))", "(= (soff "+r.S+") (soff "+s.S+"))", "(= (scap "+r.S+") (scap "+s.S+"))")),
			implies(not(and(inplace, "(not (= (sarr "+s.S+") 0))")), and("(= (sarr "+r.S+") "+a+")", "(= (soff "+r.S+") 0)", "(>= (scap "+r.S+") "+nl+")")),
			implies("(= "+nl+" 0)", "(= (sarr "+r.S+") (sarr "+s.S+"))"))))
		if h, hs := f.elemHeap(stp.Elem()); h != "" {
			// element contents: prefix preserved, appended elements copied, other arrays untouched;
			// quantifiers range over absolute positions of the new array so that the select term is a usable trigger
			oldH := e.H(st, h, hs)
			e.havoc(st, h)
			newH := e.H(st, h, hs)
			ra, ro := "(sarr "+r.S+")", "(soff "+r.S+")"
			e.assume(implies(st.cond, "(forall ((r Int)) (! (=> (not (= r "+ra+")) (= (select "+newH+" r) (select "+oldH+" r))) :pattern ((select "+newH+" r))))"))
			e.assume(implies(st.cond, "(forall ((p Int)) (! (=> (and (<= "+ro+" p) (< p (+ "+ro+" (slen "+s.S+")))) (= (select (select "+newH+" "+ra+") p) (select (select "+oldH+" (sarr "+s.S+")) (+ (- p "+ro+") (soff "+s.S+"))))) :pattern ((select (select "+newH+" "+ra+") p))))"))
			// the set of elements: appending one element inserts it; an empty slice has no elements
			es := e.sortOf(stp.Elem())
			ss := "sliceset_" + sanitize(es)
			e.declFun(ss, []string{"(Array Int " + es + ")", "Int", "Int"}, "(Array "+es+" Bool)")
			setOf := func(hh string, sl string) string {
				return "(" + ss + " (select " + hh + " (sarr " + sl + ")) (soff " + sl + ") (slen " + sl + "))"
			}
			e.assume(implies(st.cond, implies("(= (slen "+s.S+") 0)", "(= "+setOf(oldH, s.S)+" ((as const (Array "+es+" Bool)) false))")))
			if n, ok := staticSliceLen(t.S); ok && n == 1 {
				el := "(select (select " + oldH + " (sarr " + t.S + ")) (soff " + t.S + "))"
				e.assume(implies(st.cond, "(= "+setOf(newH, r.S)+" (store "+setOf(oldH, s.S)+" "+el+" true))"))
			}
			// positions of the new array beyond the written part keep their old contents when appending in place
			if t.Sort == "Slice" {
				if n, ok := staticSliceLen(t.S); ok && n <= 8 {
					for k := 0; k < n; k++ {
						e.assume(implies(st.cond, "(= (select (select "+newH+" "+ra+") (+ "+ro+" (slen "+s.S+") "+fmt.Sprint(k)+")) (select (select "+oldH+" (sarr "+t.S+")) (+ (soff "+t.S+") "+fmt.Sprint(k)+")))"))
					}
				} else {
					e.assume(implies(st.cond, "(forall ((p Int)) (! (=> (and (<= (+ "+ro+" (slen "+s.S+")) p) (< p (+ "+ro+" (slen "+r.S+")))) (= (select (select "+newH+" "+ra+") p) (select (select "+oldH+" (sarr "+t.S+")) (+ (- p (+ "+ro+" (slen "+s.S+"))) (soff "+t.S+"))))) :pattern ((select (select "+newH+" "+ra+") p))))"))
				}
			}
		}
		return []T{r}
	case "copy":
		d, s := args[0], args[1]
		n := e.fresh("copyn", "Int")
		var sl string
		if s.Sort == "Slice" {
			sl = "(slen " + s.S + ")"
		} else {
			sl = "(strlen " + s.S + ")"
		}
		e.assume(implies(st.cond, "(= "+n+" (ite (< (slen "+d.S+") "+sl+") (slen "+d.S+") "+sl+"))"))
		stp := c.Args[0].Type().Underlying().(*types.Slice)
		if h, hs := f.elemHeap(stp.Elem()); h != "" {
			oldH := e.H(st, h, hs)
			e.havoc(st, h)
			newH := e.H(st, h, hs)
			e.assume(implies(st.cond, "(forall ((r Int)) (=> (not (= r (sarr "+d.S+"))) (= (select "+newH+" r) (select "+oldH+" r))))"))
		}
		return []T{{n, "Int", intT}}
	case "close":
		ch := args[0]
		f.safety(at, "close-nil-chan", st, "(not (= "+ch.S+" 0))")
		f.safety(at, "close-closed-chan", st, not(f.chClosed(ch.S, st)))
		e.setHeap(st, "CH_closed", chClosedSort, "(store "+e.H(st, "CH_closed", chClosedSort)+" "+ch.S+" true)")
		return nil
	case "delete":
		m := args[0]
		m.Go = c.Args[0].Type()
		mt := m.Go.Underlying().(*types.Map)
		d, ds, _, _ := f.mapHeaps(mt)
		dh := e.H(st, d, ds)
		e.setHeap(st, d, ds, "(store "+dh+" "+m.S+" (store (select "+dh+" "+m.S+") "+args[1].S+" false))")
		return nil
	case "panic":
		if f.panicsIff(at, st) {
			st.cond = "false"
			return nil
		}
		if f.ct != nil && f.ct.PanicAssumed {
			f.e.assumed["documented panic of "+f.ct.Rel+" assumed unreachable under its requires (trusted numeric link)"] = true
			st.cond = "false"
			return nil
		}
		f.safety(at, "panic", st, "false")
		st.cond = "false"
		return nil
	case "print", "println":
		return nil
	case "min", "max":
		if len(args) == 2 && args[0].Sort == "Int" {
			op := "<"
			if b.Name() == "max" {
				op = ">"
			}
			return []T{{"(ite (" + op + " " + args[0].S + " " + args[1].S + ") " + args[0].S + " " + args[1].S + ")", "Int", args[0].Go}}
		}
	case "ssa:wrapnilchk":
		f.safety(at, "nil-deref", st, "(not (= "+args[0].S+" 0))")
		return []T{args[0]}
	case "recover":
		return []T{{"(mk_iface 0 0)", "Iface", types.NewInterfaceType(nil, nil)}}
	}
	e.note("builtin " + b.Name() + " approximated")
	return f.freshResults(c.Signature(), st)
}

var _ = fmt.Sprint

// parallelize gives Pool.Parallelize(count, f) its higher-order meaning: f is run for every
// 0 <= i < count (in any order, possibly concurrently: interference between different i is
// assumption A-PAR); the body is executed symbolically once for an arbitrary i, everything it
// may write is havocked, and the results have the dynamic type f returns.
func (f *frame) parallelize(at ssa.Instruction, c *ssa.CallCommon, args []T, st *State) ([]T, bool) {
	e := f.e
	var fn *ssa.Function
	var mc *ssa.MakeClosure
	switch v := c.Args[2].(type) {
	case *ssa.MakeClosure:
		mc = v
		fn, _ = v.Fn.(*ssa.Function)
	case *ssa.Function:
		fn = v
	}
	if fn == nil || len(fn.Blocks) == 0 || f.inStack(fn) {
		return nil, false
	}
	e.assumed["A-PAR: closures run by Pool.Parallelize do not interfere with each other ("+relName(fn)+")"] = true
	count := args[1]
	preSt := st.clone() // the state in which Parallelize is called (old(...) and fresh(...) of closure contracts refer to it)
	// 1. probe: what does one call write?
	snap := e.snap()
	wl := len(e.wlog)
	e.probe++
	ps := st.clone()
	pi := f.freshVal("par_i", types.Typ[types.Int], ps)
	savedRets, savedDefers := len(f.rets), len(f.defers)
	f.inline(at, fn, []T{pi}, mc, ps)
	changed := map[string]bool{}
	for cl := 0; cl < 2; cl++ {
		if ps.base[cl] != st.base[cl] {
			changed[fmt.Sprintf("*class%d", cl)] = true
		}
	}
	for k := range ps.heap {
		if e.ver(ps, k) != e.ver(st, k) {
			changed[k] = true
		}
	}
	delete(changed, "EXCL")
	delete(changed, "HELD")
	f.analyseWrites(wl, snap.nfresh, changed)
	e.probe--
	if e.probe == 0 {
		e.wlog = e.wlog[:wl]
	}
	e.rollback(snap)
	f.rets, f.defers = f.rets[:savedRets], f.defers[:savedDefers]
	// 2. havoc what the calls may write
	var cl []string
	for k := range changed {
		cl = append(cl, k)
	}
	sort.Strings(cl)
	if os.Getenv("GOVC_DEBUG") != "" {
		fmt.Fprintf(os.Stderr, "parallelize %s: changed=%v freshOnly=%v notAlloc=%v badIdx=%v idx=%v np=%v\n", relName(fn), cl, f.freshOnly, f.notAlloc, f.badIdx, f.idxTerms, f.npBump)
	}
	f.havocChanged(st, cl)
	// 3. one symbolic call, for its obligations
	body := st.clone()
	i := f.freshVal("par_i", types.Typ[types.Int], body)
	e.assume(implies(body.cond, and("(<= 0 "+i.S+")", "(< "+i.S+" "+count.S+")")))
	f.inline(at, fn, []T{i}, mc, body)
	f.bumpW(st)
	// 3b. per-index postconditions: a closure with a contract (//@ func Outer$k ... ensures P(i)) promises P(i) when the
	// call for index i returns; checked on the symbolic call above, and -- as the calls for different indices do not
	// interfere (A-PAR) -- assumed for every index once Parallelize has returned
	if cct := e.db.byFunc[fn.String()]; cct != nil && len(cct.Ensures) > 0 && mc != nil {
		mkEnv := func(iv T, cur *State) *specEnv {
			g := &frame{e: e, fn: fn, vals: map[ssa.Value]T{}, addrs: map[ssa.Value]Addr{}, tuples: map[ssa.Value][]T{},
				depth: f.depth + 1, stack: append(append([]*ssa.Function{}, f.stack...), f.fn), root: f.root,
				pinv: map[*ssa.BasicBlock]*pendInv{}}
			if len(fn.Params) > 0 {
				iv.Go = fn.Params[0].Type()
				g.vals[fn.Params[0]] = iv
			}
			for k, fv := range fn.FreeVars {
				if k < len(mc.Bindings) {
					g.vals[fv] = f.val(mc.Bindings[k], st)
				}
			}
			g.ct = cct
			env := g.specEnv(cur)
			env.old = preSt
			env.pkg = cct.Pkg
			env.lets = cct.Lets
			return env
		}
		an, pos := f.anchor(at)
		for _, en := range cct.Ensures {
			if t, err := mkEnv(i, body).evalBool(en); err == nil {
				e.addOb("par-post", relName(fn)+":"+en.Text+"|"+an, en.Tags, pos, body.cond, t)
			} else {
				e.note("closure ensures eval: " + err.Error())
				continue
			}
			q := T{"par!q", "Int", types.Typ[types.Int]}
			env := mkEnv(q, st)
			env.nbound++
			if t, err := env.evalBool(en); err == nil {
				e.assume(implies(st.cond, "(forall ((par!q Int)) (=> (and (<= 0 par!q) (< par!q "+count.S+")) "+t+"))"))
			}
		}
	}
	// 4. results
	rt := c.Signature().Results().At(0).Type()
	res := f.freshVal("par_res", rt, st)
	e.assume(implies(st.cond, and("(= (slen "+res.S+") "+count.S+")", "(not (= (sarr "+res.S+") 0))")))
	var dyn types.Type
	uniform := true
	hasNil := false
	for _, b := range fn.Blocks {
		for _, ins := range b.Instrs {
			if r, ok := ins.(*ssa.Return); ok && len(r.Results) == 1 {
				var t types.Type
				switch x := r.Results[0].(type) {
				case *ssa.MakeInterface:
					t = x.X.Type()
				case *ssa.ChangeInterface:
					// a value of interface type I converted to interface{}: nil, or a dynamic type implementing I
					t = x.X.Type()
				case *ssa.Const:
					if x.IsNil() {
						hasNil = true
						continue
					}
				}
				if t == nil || (dyn != nil && !types.Identical(dyn, t)) {
					uniform = false
					continue
				}
				dyn = t
			}
		}
	}
	if uniform && dyn != nil {
		h, hs := f.elemHeap(rt.Underlying().(*types.Slice).Elem())
		el := "(select (select " + e.H(st, h, hs) + " (sarr " + res.S + ")) ppos)"
		fact := f.hasType(el, dyn)
		if _, isI := dyn.Underlying().(*types.Interface); isI || hasNil {
			fact = "(or (= (ityp " + el + ") 0) " + fact + ")"
		}
		e.assume(implies(st.cond, "(forall ((ppos Int)) (=> (and (<= (soff "+res.S+") ppos) (< ppos (+ (soff "+res.S+") (slen "+res.S+")))) "+fact+"))"))
	}
	return []T{res}, true
}

// hasRecoverDefer reports whether fn defers a closure that calls recover().
func hasRecoverDefer(fn *ssa.Function) bool {
	for _, b := range fn.Blocks {
		for _, ins := range b.Instrs {
			d, ok := ins.(*ssa.Defer)
			if !ok {
				continue
			}
			var cl *ssa.Function
			switch v := d.Call.Value.(type) {
			case *ssa.MakeClosure:
				cl, _ = v.Fn.(*ssa.Function)
			case *ssa.Function:
				cl = v
			}
			if cl == nil {
				continue
			}
			for _, cb := range cl.Blocks {
				for _, ci := range cb.Instrs {
					if c, ok := ci.(*ssa.Call); ok {
						if bi, ok := c.Call.Value.(*ssa.Builtin); ok && bi.Name() == "recover" {
							return true
						}
					}
				}
			}
		}
	}
	return false
}

// panicProneTarget: the decoder panic was observed when the target holds pre-shaped interface values
// inside structs or slices; a target whose static type reaches no interface type cannot trigger it.
func (f *frame) panicProneTarget(at ssa.Instruction) bool {
	ci, ok := at.(ssa.CallInstruction)
	if !ok {
		return true
	}
	args := ci.Common().Args
	if len(args) == 0 {
		return true
	}
	v := args[len(args)-1]
	if ch, ok := v.(*ssa.ChangeInterface); ok {
		if named, ok := ch.X.Type().(*types.Named); ok && isModuleType(named) && named.Obj().Pkg().Name() == "curve" {
			return false // a group element held in an interface value: decoded through its UnmarshalBinary
		}
	}
	mi, ok := v.(*ssa.MakeInterface)
	if !ok {
		return true // dynamic type unknown
	}
	t := mi.X.Type()
	if p, ok := t.Underlying().(*types.Pointer); ok {
		t = p.Elem()
	}
	if _, ok := t.Underlying().(*types.Interface); ok {
		return false // a bare interface value at top level is replaced, not filled
	}
	return reachesIface(t, map[types.Type]bool{})
}

func reachesIface(t types.Type, seen map[types.Type]bool) bool {
	if seen[t] {
		return false
	}
	seen[t] = true
	switch u := t.Underlying().(type) {
	case *types.Interface:
		return true
	case *types.Pointer:
		return reachesIface(u.Elem(), seen)
	case *types.Slice:
		return reachesIface(u.Elem(), seen)
	case *types.Array:
		return reachesIface(u.Elem(), seen)
	case *types.Map:
		return reachesIface(u.Key(), seen) || reachesIface(u.Elem(), seen)
	case *types.Struct:
		for i := 0; i < u.NumFields(); i++ {
			if reachesIface(u.Field(i).Type(), seen) {
				return true
			}
		}
	}
	return false
}

// collectStructKeys: the heap keys of all struct types reachable from t.
func (f *frame) collectStructKeys(t types.Type, out map[string]bool, seen map[types.Type]bool) {
	if seen[t] {
		return
	}
	seen[t] = true
	switch u := t.Underlying().(type) {
	case *types.Pointer:
		f.collectStructKeys(u.Elem(), out, seen)
	case *types.Slice:
		f.collectStructKeys(u.Elem(), out, seen)
	case *types.Array:
		f.collectStructKeys(u.Elem(), out, seen)
	case *types.Map:
		f.collectStructKeys(u.Key(), out, seen)
		f.collectStructKeys(u.Elem(), out, seen)
	case *types.Chan:
		f.collectStructKeys(u.Elem(), out, seen)
	case *types.Struct:
		out[f.e.structKey(t)] = true
		for i := 0; i < u.NumFields(); i++ {
			f.collectStructKeys(u.Field(i).Type(), out, seen)
		}
	}
}

// collectReachHeaps: the element, map and primitive-cell heaps of the slice, map and pointer types reachable from t.
func (f *frame) collectReachHeaps(t types.Type, out map[string]bool, seen map[types.Type]bool) {
	if seen[t] {
		return
	}
	seen[t] = true
	switch u := t.Underlying().(type) {
	case *types.Pointer:
		if _, isS := u.Elem().Underlying().(*types.Struct); !isS {
			srt := f.e.sortOf(u.Elem())
			out["P_"+sanitize(srt)] = true
			if at, ok := u.Elem().Underlying().(*types.Array); ok {
				if h, _ := f.elemHeap(at.Elem()); h != "" {
					out[h] = true
				}
			}
		}
		f.collectReachHeaps(u.Elem(), out, seen)
	case *types.Slice:
		if h, _ := f.elemHeap(u.Elem()); h != "" {
			out[h] = true
		}
		f.collectReachHeaps(u.Elem(), out, seen)
	case *types.Array:
		f.collectReachHeaps(u.Elem(), out, seen)
	case *types.Map:
		d, _, v, _ := f.mapHeaps(u)
		out[d], out[v] = true, true
		f.collectReachHeaps(u.Key(), out, seen)
		f.collectReachHeaps(u.Elem(), out, seen)
	case *types.Struct:
		for i := 0; i < u.NumFields(); i++ {
			f.collectReachHeaps(u.Field(i).Type(), out, seen)
		}
	}
}
