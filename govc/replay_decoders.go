package main

import (
	"fmt"
	"regexp"
	"strings"
)

func init() {
	replayDrivers = append(replayDrivers, replayDecoder)
}

// decoderTemplates: how to build a receiver for the byte decoders of the module (in-package test source).
var decoderTemplates = map[string]struct{ pkgDir, pkgName, imports, mk string }{
	"pkg/math/polynomial:(*Exponent).UnmarshalBinary": {"pkg/math/polynomial", "polynomial",
		"\t\"github.com/taurusgroup/multi-party-sig/pkg/math/curve\"\n", "EmptyExponent(curve.Secp256k1{})"},
	"pkg/math/curve:(*Secp256k1Scalar).UnmarshalBinary": {"pkg/math/curve", "curve", "", "new(Secp256k1Scalar)"},
	"pkg/math/curve:(*Secp256k1Point).UnmarshalBinary":  {"pkg/math/curve", "curve", "", "new(Secp256k1Point)"},
	"pkg/paillier:(*Ciphertext).UnmarshalBinary":        {"pkg/paillier", "paillier", "", "new(Ciphertext)"},
	"pkg/protocol:(*Message).UnmarshalBinary":           {"pkg/protocol", "protocol", "", "new(Message)"},
	"pkg/party:(*PointMap).UnmarshalBinary": {"pkg/party", "party",
		"\t\"github.com/taurusgroup/multi-party-sig/pkg/math/curve\"\n", "EmptyPointMap(curve.Secp256k1{})"},
	"protocols/cmp/config:(*Config).UnmarshalBinary": {"protocols/cmp/config", "config",
		"\t\"github.com/taurusgroup/multi-party-sig/pkg/math/curve\"\n", "EmptyConfig(curve.Secp256k1{})"},
}

var dataLenRe = regexp.MustCompile(`\(define-fun p_data \(\) Slice\s*\(mk_slice \S+ \S+ (\d+)`)

// replayDecoder (driver R2): a refuted safety obligation in one of the byte decoders is turned into calls of the real
// decoder, under recover, on inputs of the length the model names (and the neighbouring small lengths), filled with
// the boundary patterns a decoder reacts to (zeros, 0xff, an oversized length prefix, CBOR null / break / huge-length
// headers). A panic of the real code reproduces the violation; the inputs tried are recorded in the replay file.
func replayDecoder(w *World, ob *Obligation, rep map[string]interface{}) (bool, string) {
	tpl, ok := decoderTemplates[ob.Fn]
	if !ok {
		return false, ""
	}
	switch ob.Kind {
	case "post", "inv-entry", "inv-step", "frame", "cover", "assert":
		return false, "" // a functional clause: no panic to look for
	}
	lens := []int{0, 1, 2, 3, 4, 5, 8, 9, 31, 32, 33, 64}
	if m := dataLenRe.FindStringSubmatch(ob.Model); m != nil {
		var n int
		fmt.Sscanf(m[1], "%d", &n)
		if n >= 0 && n < 1<<16 {
			lens = append([]int{n}, lens...)
		}
	}
	var ls []string
	for _, l := range lens {
		ls = append(ls, fmt.Sprint(l))
	}
	method := ob.Fn[strings.LastIndex(ob.Fn, ".")+1:]
	src := `package ` + tpl.pkgName + `

import (
	"fmt"
	"testing"
` + tpl.imports + `)

func govcReplayDecode(data []byte) (panicked interface{}) {
	defer func() { panicked = recover() }()
	_ = ` + tpl.mk + `.` + method + `(data)
	return nil
}

func TestGovcReplayDecoder(t *testing.T) {
	fills := []func(i, n int) byte{
		func(i, n int) byte { return 0 },
		func(i, n int) byte { return 0xff },
		func(i, n int) byte { return byte(i*37 + 1) },
		func(i, n int) byte { if i < 4 { return 0x7f }; return 0 },       // oversized 32-bit length prefix
		func(i, n int) byte { if i == 0 { return 0xf6 }; return 0 },      // CBOR null
		func(i, n int) byte { if i == 0 { return 0x5b }; return 0xff },   // CBOR byte string with a 64-bit length
		func(i, n int) byte { if i == 0 { return 0xbf }; return 0xf6 },   // CBOR indefinite map of nulls
		func(i, n int) byte { if i == 0 { return 0xa1 }; if i == 1 { return 0x61 }; return 0xf6 },
	}
	for _, n := range []int{` + strings.Join(ls, ", ") + `} {
		for k, fill := range fills {
			data := make([]byte, n)
			for i := range data {
				data[i] = fill(i, n)
			}
			if p := govcReplayDecode(data); p != nil {
				t.Errorf("decoder panicked on %d bytes (pattern %d: %x...): %v", n, k, head(data), p)
				return
			}
		}
	}
}

func head(b []byte) []byte {
	if len(b) > 12 {
		return b[:12]
	}
	return b
}

var _ = fmt.Sprint
`
	return runOverlayTest(rep, tpl.pkgDir, "zz_govc_replay_decoder_test.go", src, "TestGovcReplayDecoder")
}
