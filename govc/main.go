//go:debug gotypesalias=0
package main

import (
	"flag"
	"fmt"
	"os"
	"path/filepath"
	"sort"
	"strings"
	"time"
)

func verifDir() string {
	if d := os.Getenv("GOVC_HOME"); d != "" {
		return d
	}
	exe, err := os.Executable()
	if err == nil {
		d := filepath.Dir(filepath.Dir(exe))
		if _, err := os.Stat(filepath.Join(d, "properties.jsonl")); err == nil {
			return d
		}
	}
	return "/verif"
}

// outRoot is where replay files, failed scripts and replay sources go (GOVC_OUT lets concurrent runs keep apart).
func outRoot() string {
	if d := os.Getenv("GOVC_OUT"); d != "" {
		return d
	}
	return filepath.Join(verifDir(), "out")
}

func usage() {
	fmt.Fprintln(os.Stderr, `usage:
  govc check <property> [--tier quick|thorough]
  govc fn <rel-name> [-v] [-dump file]      verify one function under contract
  govc list                                  list contracts and their property tags
  govc audit                                 list assumptions (trusted, summary, axioms)
  govc replay <path>                         re-run a replay file`)
	os.Exit(2)
}

func main() {
	if len(os.Args) < 2 {
		usage()
	}
	switch os.Args[1] {
	case "fn":
		cmdFn(os.Args[2:])
	case "list":
		cmdList()
	case "check":
		os.Exit(cmdCheck(os.Args[2:]))
	case "audit":
		cmdAudit()
	case "replay":
		os.Exit(cmdReplay(os.Args[2:]))
	default:
		usage()
	}
}

func loadAll() (*World, *ContractDB) {
	t0 := time.Now()
	w, err := loadWorld()
	if err != nil {
		fmt.Fprintln(os.Stderr, "govc: cannot load /repo:", err)
		os.Exit(2)
	}
	db := newDB(w)
	db.loadAll(filepath.Join(verifDir(), "trusted"))
	if len(db.errs) > 0 {
		for _, e := range db.errs {
			fmt.Fprintln(os.Stderr, "contract error:", e)
		}
		os.Exit(2)
	}
	if os.Getenv("GOVC_VERBOSE") != "" {
		fmt.Fprintf(os.Stderr, "loaded in %.1fs: %d functions, %d contracts, %d interface contracts\n",
			time.Since(t0).Seconds(), len(w.Funcs), len(db.byFunc), len(db.byIface))
	}
	return w, db
}

func cmdFn(args []string) {
	fs := flag.NewFlagSet("fn", flag.ExitOnError)
	verbose := fs.Bool("v", false, "verbose")
	dump := fs.String("dump", "", "write the SMT script here")
	timeout := fs.Int("t", 10000, "per-query timeout ms")
	if len(args) == 0 {
		usage()
	}
	name := args[0]
	_ = fs.Parse(args[1:])
	w, db := loadAll()
	var ct *Contract
	for _, c := range db.byFunc {
		if c.Rel == name || c.Key == name {
			ct = c
		}
	}
	if ct == nil {
		fmt.Fprintln(os.Stderr, "no contract for", name)
		os.Exit(2)
	}
	r := genVCs(w, db, ct)
	if r.Err != "" {
		fmt.Println("ERROR:", r.Err)
		os.Exit(2)
	}
	if *dump != "" {
		s, _ := r.Enc.script(*timeout)
		_ = os.WriteFile(*dump, []byte(s), 0o644)
	}
	solveFn(r, solveOpts{timeoutMs: *timeout, workers: 8, keepDir: filepath.Join(outRoot(), "failed")})
	if r.Err != "" {
		fmt.Println("ERROR:", r.Err)
		os.Exit(2)
	}
	nf := 0
	for _, ob := range r.Obs {
		if ob.Status != "discharged" || *verbose {
			fmt.Printf("%-10s %-7s %5.2fs %s  [%s] %s\n", ob.Status, ob.Solver, ob.Secs, ob.Name, strings.Join(ob.Tags, ","), ob.Pos)
		}
		if ob.Status != "discharged" {
			nf++
			if *verbose && ob.Model != "" {
				fmt.Println(indent(ob.Model, "    "))
			}
		}
	}
	fmt.Printf("%s: %d obligations, %d not discharged\n", r.Rel, len(r.Obs), nf)
	for _, n := range r.Notes {
		fmt.Println("  note:", n)
	}
	for _, n := range r.Assumed {
		fmt.Println("  assumed:", n)
	}
}

func indent(s, p string) string {
	ls := strings.Split(s, "\n")
	if len(ls) > 60 {
		ls = append(ls[:60], "...")
	}
	for i := range ls {
		ls[i] = p + ls[i]
	}
	return strings.Join(ls, "\n")
}

func cmdList() {
	_, db := loadAll()
	var keys []string
	for _, c := range db.byFunc {
		keys = append(keys, c.Rel)
	}
	sort.Strings(keys)
	for _, k := range keys {
		for _, c := range db.byFunc {
			if c.Rel == k {
				var ps []string
				for p := range contractProps(c) {
					ps = append(ps, p)
				}
				sort.Strings(ps)
				t := ""
				if c.Trusted {
					t = " (trusted)"
				}
				fmt.Printf("%s [%s]%s\n", k, strings.Join(ps, ","), t)
			}
		}
	}
	for k := range db.byIface {
		fmt.Println("interface:", k)
	}
}
