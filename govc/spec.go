package main

import (
	"fmt"
	"go/ast"
	"go/constant"
	"go/parser"
	"go/token"
	"go/types"
	"os"
	"path/filepath"
	"regexp"
	"sort"
	"strconv"
	"strings"

	"golang.org/x/tools/go/ssa"
)

// ------------------------------------------------------------------ contract database

type SpecExpr struct {
	Text string
	Tags []string
	Expr ast.Expr
	Src  string // file:line
}

type LoopSpec struct {
	Ord  int
	Invs []*SpecExpr
}

type Contract struct {
	Key          string
	Rel          string // relative name for reports
	Fn           *ssa.Function
	Sig          *types.Signature
	ParamNames   []string // receiver first
	ParamTypes   []types.Type
	ResultNames  []string
	Requires     []*SpecExpr
	Ensures      []*SpecExpr
	Summary      []*SpecExpr
	Modifies     []string
	ModifiesSet  bool
	Pure         bool
	NoPanic      bool
	NoPanicTags  []string
	PanicAssumed bool      // explicit panic sites are assumed unreachable under requires (documented panic; trusted link)
	Inline       bool      // callers execute the body instead of using the contract
	AllocBound   *SpecExpr // every make([]T, n) in the function must have n <= this bound (resource obligation)
	MayPanic     bool      // the (trusted) function can panic on some inputs: callers must recover
	Unclaimed    []Unclaimed
	AssertAt     []AssertAt
	Sequential   bool
	Use          []string  // axiom groups
	PanicsIff    *SpecExpr // the function panics exactly when this holds of its entry state (documented panic)
	ChanSafe     bool
	ChanSafeTags []string
	Trusted      bool
	Loops        []*LoopSpec
	Lets         map[string]ast.Expr
	LetOrder     []string
	Pkg          *types.Package
	IsIface      bool
	Allocates    bool
	KeepOwnMaps  bool // "keeps ownmaps": maps of types written only by this package keep their contents
	Assumes      []string
	Refined      bool
	Src          string
}

// Unclaimed names automatic obligations that are generated and reported but not part of the claim.
type Unclaimed struct{ Kind, Sub, Reason string }

// AssertAt is a ghost assertion placed before the call/send instructions of the matching source line.
type AssertAt struct {
	What string // callee name, or "send"
	Sub  string
	Spec *SpecExpr
}

type RawAxiom struct {
	Tags []string
	Text string
	Src  string
}

type SpecFn struct {
	Name string
	Args []string
	Ret  string
}

type Pred struct {
	Name   string
	Params []string
	PTypes []ast.Expr
	Body   ast.Expr
	Pkg    *types.Package
	Text   string
}

type ContractDB struct {
	w          *World
	byFunc     map[string]*Contract
	byIface    map[string]*Contract
	rawAxioms  []RawAxiom
	byFuncType map[string]*Contract
	ambiguous  map[string]bool
	specFns    map[string]*SpecFn
	preds      map[string]*Pred
	axioms     []*SpecExpr
	axiomPkg   []*types.Package
	guarded    map[string]map[string]string
	guardTags  map[string][]string
	lockinv    map[string]*SpecExpr // structKey + "." + mutex field
	lockinvP   map[string]*types.Package
	chanelem   map[string]*SpecExpr
	chanelemP  map[string]*types.Package
	typeinv    map[string]*SpecExpr
	typeinvP   map[string]*types.Package
	strIDs     map[string]int
	typeIDs    map[string]int
	typeByID   map[int]types.Type
	errs       []string
	sideConds  []*SideCond
}

// SideCond is a syntactic side condition declared in a contract file.
type SideCond struct {
	Kind string
	Tags []string
	Arg  string
	Pkg  *types.Package
	Src  string
}

func newDB(w *World) *ContractDB {
	return &ContractDB{w: w, byFunc: map[string]*Contract{}, byIface: map[string]*Contract{}, byFuncType: map[string]*Contract{}, ambiguous: map[string]bool{},
		specFns: map[string]*SpecFn{}, preds: map[string]*Pred{}, guarded: map[string]map[string]string{},
		guardTags: map[string][]string{}, lockinv: map[string]*SpecExpr{}, lockinvP: map[string]*types.Package{}, typeinv: map[string]*SpecExpr{}, chanelem: map[string]*SpecExpr{}, chanelemP: map[string]*types.Package{}, typeinvP: map[string]*types.Package{},
		strIDs: map[string]int{}, typeIDs: map[string]int{}, typeByID: map[int]types.Type{}}
}

var tagRe = regexp.MustCompile(`^(\w+)\[([A-Za-z0-9_,\- ]+)\]`)

// splitHead splits "ensures[C01,C02] expr" into ("ensures", [C01 C02], "expr").
func splitHead(s string) (kw string, tags []string, rest string) {
	if m := tagRe.FindStringSubmatch(s); m != nil {
		kw = m[1]
		for _, t := range strings.Split(m[2], ",") {
			tags = append(tags, strings.TrimSpace(t))
		}
		rest = strings.TrimSpace(s[len(m[0]):])
		return
	}
	i := strings.IndexAny(s, " \t")
	if i < 0 {
		return s, nil, ""
	}
	return s[:i], nil, strings.TrimSpace(s[i:])
}

// rewriteImplies turns "a ==> b" (right associative, lowest precedence) into implies(a, b).
func rewriteImplies(s string) string {
	depth := 0
	inStr := false
	for i := 0; i < len(s); i++ {
		c := s[i]
		if c == '"' {
			inStr = !inStr
		}
		if inStr {
			continue
		}
		switch c {
		case '(', '[', '{':
			depth++
		case ')', ']', '}':
			depth--
		}
		if depth == 0 && strings.HasPrefix(s[i:], "==>") {
			return "implies(" + rewriteImplies(strings.TrimSpace(s[:i])) + ", " + rewriteImplies(strings.TrimSpace(s[i+3:])) + ")"
		}
	}
	// no top-level implication: recurse into parenthesised groups, splitting at top-level commas
	var out strings.Builder
	i := 0
	for i < len(s) {
		c := s[i]
		if c == '"' {
			j := i + 1
			for j < len(s) && s[j] != '"' {
				j++
			}
			out.WriteString(s[i:min(j+1, len(s))])
			i = j + 1
			continue
		}
		if c == '(' {
			// find matching
			d := 0
			j := i
			for ; j < len(s); j++ {
				if s[j] == '(' {
					d++
				} else if s[j] == ')' {
					d--
					if d == 0 {
						break
					}
				}
			}
			if j >= len(s) {
				out.WriteString(s[i:])
				break
			}
			inner := s[i+1 : j]
			parts := splitTop(inner, ',')
			for k, p := range parts {
				parts[k] = rewriteImplies(strings.TrimSpace(p))
			}
			out.WriteString("(" + strings.Join(parts, ", ") + ")")
			i = j + 1
			continue
		}
		out.WriteByte(c)
		i++
	}
	return out.String()
}

func splitTop(s string, sep byte) []string {
	var parts []string
	depth := 0
	last := 0
	inStr := false
	for i := 0; i < len(s); i++ {
		c := s[i]
		if c == '"' {
			inStr = !inStr
		}
		if inStr {
			continue
		}
		switch c {
		case '(', '[', '{':
			depth++
		case ')', ']', '}':
			depth--
		}
		if c == sep && depth == 0 {
			parts = append(parts, s[last:i])
			last = i + 1
		}
	}
	parts = append(parts, s[last:])
	return parts
}

func parseSpec(text string, tags []string, src string) (*SpecExpr, error) {
	rw := rewriteImplies(text)
	ex, err := parser.ParseExpr(rw)
	if err != nil {
		return nil, fmt.Errorf("%s: cannot parse %q: %v", src, text, err)
	}
	return &SpecExpr{Text: text, Tags: tags, Expr: ex, Src: src}, nil
}

func (db *ContractDB) errf(format string, a ...interface{}) {
	db.errs = append(db.errs, fmt.Sprintf(format, a...))
}

// loadAll reads contract comment files of module packages and the trusted specs.
func (db *ContractDB) loadAll(trustedDir string) {
	for _, p := range modulePkgs(db.w) {
		lines := db.w.contractLines(p)
		if len(lines) > 0 {
			db.parseLines(lines, p.Types, false)
		}
	}
	files, _ := filepath.Glob(filepath.Join(trustedDir, "*.spec"))
	sort.Strings(files)
	for _, fn := range files {
		b, err := os.ReadFile(fn)
		if err != nil {
			continue
		}
		var lines []srcLine
		for i, l := range strings.Split(string(b), "\n") {
			l = strings.TrimSpace(l)
			if l == "" || strings.HasPrefix(l, "#") {
				continue
			}
			lines = append(lines, srcLine{fn, i + 1, l})
		}
		db.parseLines(lines, nil, true)
	}
}

func joinContinuations(lines []srcLine) []srcLine {
	var out []srcLine
	for i := 0; i < len(lines); i++ {
		l := lines[i]
		for strings.HasSuffix(l.Text, "\\") && i+1 < len(lines) {
			i++
			l.Text = strings.TrimSuffix(l.Text, "\\") + " " + lines[i].Text
		}
		out = append(out, l)
	}
	return out
}

func (db *ContractDB) findPkg(name string) *types.Package {
	// by full path, module-relative path or package name
	if p, ok := db.w.ByPath[name]; ok {
		return p.Types
	}
	if p, ok := db.w.ByPath[modPath+"/"+name]; ok {
		return p.Types
	}
	return nil
}

func (db *ContractDB) parseLines(lines []srcLine, pkg *types.Package, trusted bool) {
	lines = joinContinuations(lines)
	var cur *Contract
	for _, l := range lines {
		src := fmt.Sprintf("%s:%d", strings.TrimPrefix(l.File, repoDir()+"/"), l.Line)
		kw, tags, rest := splitHead(l.Text)
		switch kw {
		case "package":
			// in trusted spec files: sets the resolution package for following items
			if p := db.findPkg(rest); p != nil {
				pkg = p
			} else {
				db.errf("%s: unknown package %s", src, rest)
			}
			cur = nil
		case "func", "extern":
			cur = nil
			var fn *ssa.Function
			if kw == "func" && pkg != nil {
				rp := strings.TrimPrefix(strings.TrimPrefix(pkg.Path(), modPath), "/")
				fn = db.w.funcByRel(rp + ":" + rest)
			} else {
				fn = db.w.Funcs[rest]
			}
			if fn == nil {
				if kw == "extern" {
					// function not in the program (not reachable from module): ignore silently
					cur = &Contract{Key: rest, Lets: map[string]ast.Expr{}}
					continue
				}
				db.errf("%s: no such function %q", src, rest)
				cur = &Contract{Key: "?" + rest, Lets: map[string]ast.Expr{}}
				continue
			}
			c := &Contract{Key: fn.String(), Rel: relName(fn), Fn: fn, Sig: fn.Signature, Lets: map[string]ast.Expr{}, Src: src,
				Trusted: trusted || kw == "extern"}
			for _, p := range fn.Params {
				c.ParamNames = append(c.ParamNames, p.Name())
				c.ParamTypes = append(c.ParamTypes, p.Type())
			}
			if len(fn.Params) == 0 && fn.Signature != nil {
				// external function without body: names from the signature
				if r := fn.Signature.Recv(); r != nil {
					n := r.Name()
					if n == "" || n == "_" {
						n = "recv"
					}
					c.ParamNames = append(c.ParamNames, n)
					c.ParamTypes = append(c.ParamTypes, r.Type())
				}
				for i := 0; i < fn.Signature.Params().Len(); i++ {
					v := fn.Signature.Params().At(i)
					n := v.Name()
					if n == "" || n == "_" {
						n = fmt.Sprintf("arg%d", i)
					}
					c.ParamNames = append(c.ParamNames, n)
					c.ParamTypes = append(c.ParamTypes, v.Type())
				}
			}
			for i := 0; i < fn.Signature.Results().Len(); i++ {
				c.ResultNames = append(c.ResultNames, fn.Signature.Results().At(i).Name())
			}
			if fn.Pkg != nil {
				c.Pkg = fn.Pkg.Pkg
			} else if pkg != nil {
				c.Pkg = pkg
			}
			if c.Pkg == nil && fn.Object() != nil {
				c.Pkg = fn.Object().Pkg()
			}
			if old, dup := db.byFunc[c.Key]; dup {
				// clauses for one function may be spread over several contract files: merge
				cur = old
				continue
			}
			db.byFunc[c.Key] = c
			cur = c
		case "interface":
			// interface <TypeName> method <M>
			f := strings.Fields(rest)
			cur = nil
			if len(f) != 3 || f[1] != "method" || pkg == nil {
				db.errf("%s: bad interface line", src)
				continue
			}
			obj := pkg.Scope().Lookup(f[0])
			if obj == nil {
				db.errf("%s: no type %s", src, f[0])
				continue
			}
			it, ok := obj.Type().Underlying().(*types.Interface)
			if !ok {
				db.errf("%s: %s is not an interface", src, f[0])
				continue
			}
			var m *types.Func
			for i := 0; i < it.NumMethods(); i++ {
				if it.Method(i).Name() == f[2] {
					m = it.Method(i)
				}
			}
			if m == nil {
				db.errf("%s: no method %s", src, f[2])
				continue
			}
			sig := m.Type().(*types.Signature)
			c := &Contract{Key: m.FullName(), Rel: m.FullName(), Sig: sig, Lets: map[string]ast.Expr{}, Pkg: pkg, IsIface: true, Src: src}
			c.ParamNames = []string{"self"}
			c.ParamTypes = []types.Type{obj.Type()}
			for i := 0; i < sig.Params().Len(); i++ {
				v := sig.Params().At(i)
				n := v.Name()
				if n == "" || n == "_" {
					n = fmt.Sprintf("arg%d", i)
				}
				c.ParamNames = append(c.ParamNames, n)
				c.ParamTypes = append(c.ParamTypes, v.Type())
			}
			for i := 0; i < sig.Results().Len(); i++ {
				c.ResultNames = append(c.ResultNames, sig.Results().At(i).Name())
			}
			db.byIface[c.Key] = c
			cur = c
		case "functype":
			// functype <TypeName>: contract for calls through values of a named function type
			cur = nil
			if pkg == nil {
				db.errf("%s: functype outside package", src)
				continue
			}
			var ftype types.Type
			if obj := pkg.Scope().Lookup(rest); obj != nil {
				ftype = obj.Type()
			} else if tv, err := types.Eval(db.w.Fset, pkg, token.NoPos, rest); err == nil && tv.Type != nil {
				ftype = tv.Type // an unnamed function type written out, e.g. func(int) interface{}
			}
			if ftype == nil {
				db.errf("%s: no type %s", src, rest)
				continue
			}
			sig, ok := ftype.Underlying().(*types.Signature)
			if !ok {
				db.errf("%s: %s is not a function type", src, rest)
				continue
			}
			c := &Contract{Key: types.TypeString(ftype, nil), Rel: "functype " + types.TypeString(ftype, nil), Sig: sig,
				Lets: map[string]ast.Expr{}, Pkg: pkg, IsIface: true, Src: src}
			for i := 0; i < sig.Params().Len(); i++ {
				v := sig.Params().At(i)
				n := v.Name()
				if n == "" || n == "_" {
					n = fmt.Sprintf("arg%d", i)
				}
				c.ParamNames = append(c.ParamNames, n)
				c.ParamTypes = append(c.ParamTypes, v.Type())
			}
			for i := 0; i < sig.Results().Len(); i++ {
				c.ResultNames = append(c.ResultNames, sig.Results().At(i).Name())
			}
			db.byFuncType[c.Key] = c
			cur = c
		case "spec":
			// spec fn name(S1, S2) R
			cur = nil
			r := strings.TrimSpace(strings.TrimPrefix(rest, "fn"))
			i, j := strings.Index(r, "("), strings.LastIndex(r, ")")
			if i < 0 || j < i {
				db.errf("%s: bad spec fn", src)
				continue
			}
			sf := &SpecFn{Name: strings.TrimSpace(r[:i]), Ret: strings.TrimSpace(r[j+1:])}
			for _, a := range splitTop(r[i+1:j], ',') {
				if a = strings.TrimSpace(a); a != "" {
					sf.Args = append(sf.Args, a)
				}
			}
			db.specFns[sf.Name] = sf
		case "pred":
			cur = nil
			i := strings.Index(rest, ":=")
			if i < 0 {
				db.errf("%s: bad pred", src)
				continue
			}
			head, body := strings.TrimSpace(rest[:i]), strings.TrimSpace(rest[i+2:])
			pi, pj := strings.Index(head, "("), strings.LastIndex(head, ")")
			p := &Pred{Name: strings.TrimSpace(head[:pi]), Pkg: pkg, Text: body}
			for _, a := range splitTop(head[pi+1:pj], ',') {
				a = strings.TrimSpace(a)
				if a == "" {
					continue
				}
				sp := strings.IndexAny(a, " \t")
				if sp < 0 {
					p.Params = append(p.Params, a)
					p.PTypes = append(p.PTypes, nil)
					continue
				}
				p.Params = append(p.Params, a[:sp])
				te, err := parser.ParseExpr(strings.TrimSpace(a[sp:]))
				if err != nil {
					db.errf("%s: bad pred param type %q", src, a)
				}
				p.PTypes = append(p.PTypes, te)
			}
			se, err := parseSpec(body, nil, src)
			if err != nil {
				db.errf("%v", err)
				continue
			}
			p.Body = se.Expr
			if pkg != nil {
				db.preds[pkg.Path()+"."+p.Name] = p
			}
			if _, dup := db.preds[p.Name]; !dup {
				db.preds[p.Name] = p
			} else {
				db.ambiguous[p.Name] = true
			}
		case "rawaxiom":
			// rawaxiom[group] <SMT-LIB assertion body>: a theory axiom given directly in SMT-LIB (array sorts)
			cur = nil
			db.rawAxioms = append(db.rawAxioms, RawAxiom{Tags: tags, Text: rest, Src: src})
		case "axiom":
			cur = nil
			se, err := parseSpec(rest, tags, src)
			if err != nil {
				db.errf("%v", err)
				continue
			}
			db.axioms = append(db.axioms, se)
			db.axiomPkg = append(db.axiomPkg, pkg)
		case "immutable", "soledecl":
			// immutable[tags] T.f      -- no instruction of the module writes field f of a T that already exists
			// soledecl[tags] M T       -- among the module's types only T declares a method named M
			// (syntactic side conditions, scanned over the SSA of the whole module on every check: sidecond.go)
			cur = nil
			if pkg == nil {
				db.errf("%s: %s outside package", src, kw)
				continue
			}
			db.sideConds = append(db.sideConds, &SideCond{Kind: kw, Tags: tags, Arg: strings.TrimSpace(rest), Pkg: pkg, Src: src})
		case "guarded_by":
			// guarded_by[C17] MultiHandler.mtx: f1, f2
			cur = nil
			i := strings.Index(rest, ":")
			tm := strings.Split(strings.TrimSpace(rest[:i]), ".")
			obj := pkg.Scope().Lookup(tm[0])
			if obj == nil || len(tm) != 2 {
				db.errf("%s: bad guarded_by", src)
				continue
			}
			key := "S_" + typeKey(obj.Type())
			if db.guarded[key] == nil {
				db.guarded[key] = map[string]string{}
			}
			for _, fl := range strings.Split(rest[i+1:], ",") {
				db.guarded[key][strings.TrimSpace(fl)] = tm[1]
			}
			db.guardTags[key] = tags
		case "typeinv":
			// typeinv T := expr over self (*T): holds for every allocated T outside its own package's methods
			cur = nil
			i := strings.Index(rest, ":=")
			obj := pkg.Scope().Lookup(strings.TrimSpace(rest[:i]))
			if obj == nil {
				db.errf("%s: bad typeinv", src)
				continue
			}
			se, err := parseSpec(strings.TrimSpace(rest[i+2:]), tags, src)
			if err != nil {
				db.errf("%v", err)
				continue
			}
			k := "S_" + typeKey(obj.Type())
			db.typeinv[k] = se
			db.typeinvP[k] = pkg
		case "chanelem":
			// chanelem T := expr over elem: invariant of every value sent on / received from a `chan T`
			cur = nil
			i := strings.Index(rest, ":=")
			te, err := parser.ParseExpr(strings.TrimSpace(rest[:i]))
			if err != nil {
				db.errf("%s: bad chanelem type", src)
				continue
			}
			env := &specEnv{pkg: pkg}
			t, err := env.resolveTypeStatic(te, db)
			if err != nil {
				db.errf("%s: %v", src, err)
				continue
			}
			se, err := parseSpec(strings.TrimSpace(rest[i+2:]), tags, src)
			if err != nil {
				db.errf("%v", err)
				continue
			}
			db.chanelem[types.TypeString(t, nil)] = se
			db.chanelemP[types.TypeString(t, nil)] = pkg
		case "lockinv":
			cur = nil
			i := strings.Index(rest, ":=")
			tm := strings.Split(strings.TrimSpace(rest[:i]), ".")
			obj := pkg.Scope().Lookup(tm[0])
			if obj == nil || len(tm) != 2 {
				db.errf("%s: bad lockinv", src)
				continue
			}
			se, err := parseSpec(strings.TrimSpace(rest[i+2:]), tags, src)
			if err != nil {
				db.errf("%v", err)
				continue
			}
			k := "S_" + typeKey(obj.Type()) + "." + tm[1]
			db.lockinv[k] = se
			db.lockinvP[k] = pkg
		default:
			if cur == nil {
				db.errf("%s: clause %q outside a contract", src, kw)
				continue
			}
			switch kw {
			case "requires", "ensures", "summary":
				se, err := parseSpec(rest, tags, src)
				if err != nil {
					db.errf("%v", err)
					continue
				}
				switch kw {
				case "requires":
					cur.Requires = append(cur.Requires, se)
				case "ensures":
					cur.Ensures = append(cur.Ensures, se)
				default:
					cur.Summary = append(cur.Summary, se)
				}
			case "modifies":
				cur.ModifiesSet = true
				if rest != "nothing" {
					for _, m := range strings.Split(rest, ",") {
						cur.Modifies = append(cur.Modifies, strings.TrimSpace(m))
					}
				}
			case "pure":
				cur.Pure = true
				cur.ModifiesSet = true
			case "allocates":
				cur.Allocates = true
			case "keeps":
				if strings.TrimSpace(rest) != "ownmaps" {
					db.errf("%s: keeps: only 'ownmaps' is supported", src)
				}
				cur.KeepOwnMaps = true
			case "nopanic":
				cur.NoPanic = true
				cur.NoPanicTags = tags
			case "panic_unreachable_under_requires":
				cur.PanicAssumed = true
			case "allocbound":
				se, err := parseSpec(rest, tags, src)
				if err != nil {
					db.errf("%v", err)
					continue
				}
				cur.AllocBound = se
			case "unclaimed":
				// unclaimed <kind> <substring of anchor> -- <reason>: generated, reported, not claimed
				parts := strings.SplitN(rest, "--", 2)
				f := strings.Fields(parts[0])
				if len(f) < 2 {
					db.errf("%s: bad unclaimed clause", src)
					continue
				}
				u := Unclaimed{Kind: f[0], Sub: strings.Join(f[1:], " ")}
				if len(parts) == 2 {
					u.Reason = strings.TrimSpace(parts[1])
				}
				cur.Unclaimed = append(cur.Unclaimed, u)
			case "assert_at":
				// assert_at <callee name | send> "<substring of source line>": expr
				m := regexp.MustCompile(`^(\w+)\s+"([^"]*)"\s*:\s*(.*)$`).FindStringSubmatch(rest)
				if m == nil {
					db.errf("%s: bad assert_at", src)
					continue
				}
				se, err := parseSpec(m[3], tags, src)
				if err != nil {
					db.errf("%v", err)
					continue
				}
				cur.AssertAt = append(cur.AssertAt, AssertAt{What: m[1], Sub: m[2], Spec: se})
			case "sequential":
				// Lock() in this function does not havoc the state: callers guarantee that nobody else
				// mutates the guarded object meanwhile (rounds run under the handler mutex)
				cur.Sequential = true
			case "use":
				// use <axiom group>, ...: include the axioms tagged with these groups
				for _, g := range strings.Split(rest, ",") {
					cur.Use = append(cur.Use, strings.TrimSpace(g))
				}
			case "panics_iff":
				se, err := parseSpec(rest, tags, src)
				if err != nil {
					db.errf("%v", err)
					continue
				}
				cur.PanicsIff = se
			case "maypanic":
				cur.MayPanic = true
			case "inline":
				cur.Inline = true
			case "chansafe":
				cur.ChanSafe = true
				cur.ChanSafeTags = tags
			case "trusted":
				cur.Trusted = true
			case "refined":
				// on an interface method contract: every contracted implementation in the module is checked against the
				// ensures clauses of this contract (obligation kind "refine")
				cur.Refined = true
			case "assumes":
				// assumes <text>: an assumption the contract rests on, listed in the evidence of every check that uses it
				cur.Assumes = append(cur.Assumes, strings.TrimSpace(rest))
			case "let":
				i := strings.Index(rest, "=")
				if i < 0 {
					db.errf("%s: bad let", src)
					continue
				}
				se, err := parseSpec(strings.TrimSpace(rest[i+1:]), nil, src)
				if err != nil {
					db.errf("%v", err)
					continue
				}
				n := strings.TrimSpace(rest[:i])
				cur.Lets[n] = se.Expr
				cur.LetOrder = append(cur.LetOrder, n)
			case "loop":
				// loop 2: invariant[tags] expr
				i := strings.Index(rest, ":")
				n, err := strconv.Atoi(strings.TrimSpace(rest[:i]))
				if err != nil {
					db.errf("%s: bad loop ordinal", src)
					continue
				}
				k2, t2, r2 := splitHead(strings.TrimSpace(rest[i+1:]))
				if k2 != "invariant" {
					db.errf("%s: expected invariant", src)
					continue
				}
				se, err := parseSpec(r2, t2, src)
				if err != nil {
					db.errf("%v", err)
					continue
				}
				var ls *LoopSpec
				for _, x := range cur.Loops {
					if x.Ord == n {
						ls = x
					}
				}
				if ls == nil {
					ls = &LoopSpec{Ord: n}
					cur.Loops = append(cur.Loops, ls)
				}
				ls.Invs = append(ls.Invs, se)
			default:
				db.errf("%s: unknown clause %q", src, kw)
			}
		}
	}
}

// ------------------------------------------------------------------ evaluation

type specEnv struct {
	f       *frame
	vars    map[string]T
	cur     *State
	old     *State
	lock    *State
	results []T
	resName []string
	pkg     *types.Package
	lets    map[string]ast.Expr
	depth   int
	nbound  int // number of enclosing quantifiers
	cells   map[string]T // captured variables (go/ssa free variables are cells): dereferenced in the state of use
}

// wf assumes the heap well-formedness facts (allocation bound, ranges) of a value read in a spec.
func (env *specEnv) wf(v T) {
	env.wfFrom(v, "", "")
}

func (env *specEnv) wfFrom(v T, heap, idx string) {
	if v.Go != nil && strings.Contains(v.S, "!q") && v.Sort == "Int" {
		// a reference loaded from a field heap under a quantified base: every reference stored in the heap is
		// allocated (the uniform version of the fact assumed for each concrete load)
		switch v.Go.Underlying().(type) {
		case *types.Pointer, *types.Map, *types.Chan:
			e := env.f.e
			if srt := e.heapSort[heap]; srt == "(Array Int Int)" {
				h, w := e.H(env.cur, heap, srt), e.H(env.cur, "W", "Int")
				e.declFun("owner", []string{"Int"}, "Int")
				e.addDecl("heapwf@"+h+"@"+w, "(assert (forall ((wx Int)) (! (<= (owner (select "+h+" wx)) "+w+") :pattern ((select "+h+" wx)))))")
			}
		}
		return
	}
	if env.nbound > 0 || v.Go == nil || strings.Contains(v.S, "!q") {
		return
	}
	fs := env.f.factsFrom(v.S, v.Go, env.cur, heap, idx)
	if fs != "true" {
		env.f.e.assume(fs)
	}
}

func (f *frame) specEnv(cur *State) *specEnv {
	env := &specEnv{f: f, vars: map[string]T{}, cur: cur, old: cur}
	if f.root != nil && f.root.entrySt != nil {
		env.old = f.root.entrySt // old(...) in loop invariants and ghost clauses refers to the root's entry state
	}
	if f.fn != nil {
		for _, p := range f.fn.Params {
			if t, ok := f.vals[p]; ok {
				env.vars[p.Name()] = t
			}
		}
		for _, fv := range f.fn.FreeVars {
			if t, ok := f.vals[fv]; ok {
				// go/ssa captures variables by reference: the name denotes the captured variable's value in the
				// state the expression is evaluated in (so that old(x) is the value at entry)
				if pt, isP := fv.Type().(*types.Pointer); isP {
					_, isArr := pt.Elem().Underlying().(*types.Array)
					if _, isS := pt.Elem().Underlying().(*types.Struct); !isS && !isArr {
						if env.cells == nil {
							env.cells = map[string]T{}
						}
						env.cells[fv.Name()] = t
						env.cells["v_"+fv.Name()] = t
						continue
					}
				}
				env.vars[fv.Name()] = t
				env.vars["v_"+fv.Name()] = t // alias for names that clash with spec keywords (result, old, ...)
			}
		}
		for _, p := range f.fn.Params {
			if t, ok := f.vals[p]; ok {
				env.vars["v_"+p.Name()] = t
			}
		}
		// phis and named values by their source names
		for v, t := range f.vals {
			if p, ok := v.(*ssa.Phi); ok && p.Comment != "" {
				if _, exists := env.vars[p.Comment]; !exists {
					env.vars[p.Comment] = t
				}
			}
		}
		if f.fn.Pkg != nil {
			env.pkg = f.fn.Pkg.Pkg
		}
	}
	if f.ct != nil {
		env.lets = f.ct.Lets
		if env.pkg == nil {
			env.pkg = f.ct.Pkg
		}
	}
	return env
}

var untypedNil = T{S: "nil", Sort: "nil"}

func (env *specEnv) evalBool(se *SpecExpr) (string, error) {
	t, err := env.eval(se.Expr)
	if err != nil {
		return "true", fmt.Errorf("%s: %q: %v", se.Src, se.Text, err)
	}
	if t.Sort != "Bool" {
		return "true", fmt.Errorf("%s: %q is not boolean (sort %s)", se.Src, se.Text, t.Sort)
	}
	return t.S, nil
}

func (env *specEnv) with(st *State) *specEnv {
	n := *env
	n.cur = st
	return &n
}

func (env *specEnv) bind(name string, t T) *specEnv {
	n := *env
	n.vars = map[string]T{}
	for k, v := range env.vars {
		n.vars[k] = v
	}
	n.vars[name] = t
	if _, shadow := env.cells[name]; shadow {
		n.cells = map[string]T{}
		for k, v := range env.cells {
			if k != name {
				n.cells[k] = v
			}
		}
	}
	return &n
}

func (env *specEnv) lookupPkg(name string) *types.Package {
	if env.pkg == nil {
		return nil
	}
	if env.pkg.Name() == name {
		return env.pkg
	}
	for _, imp := range env.pkg.Imports() {
		if imp.Name() == name {
			return imp
		}
	}
	// any loaded module package with that name
	for path, p := range env.f.e.w.ByPath {
		if strings.HasPrefix(path, modPath) && p.Types.Name() == name {
			return p.Types
		}
	}
	// any loaded dependency with that name (e.g. saferith), smallest path first for determinism
	best := ""
	for path, p := range env.f.e.w.ByPath {
		if p.Types != nil && p.Types.Name() == name && (best == "" || path < best) {
			best = path
		}
	}
	if best != "" {
		return env.f.e.w.ByPath[best].Types
	}
	return nil
}

// resolveTypeStatic resolves a type expression without a frame (package-level declarations).
func (env *specEnv) resolveTypeStatic(x ast.Expr, db *ContractDB) (types.Type, error) {
	switch t := x.(type) {
	case *ast.StarExpr:
		el, err := env.resolveTypeStatic(t.X, db)
		if err != nil {
			return nil, err
		}
		return types.NewPointer(el), nil
	case *ast.Ident:
		if env.pkg != nil {
			if obj, ok := env.pkg.Scope().Lookup(t.Name).(*types.TypeName); ok {
				return obj.Type(), nil
			}
		}
		if obj, ok := types.Universe.Lookup(t.Name).(*types.TypeName); ok {
			return obj.Type(), nil
		}
	case *ast.SelectorExpr:
		if id, ok := t.X.(*ast.Ident); ok {
			for path, p := range db.w.ByPath {
				if strings.HasPrefix(path, modPath) && p.Types.Name() == id.Name {
					if obj, ok := p.Types.Scope().Lookup(t.Sel.Name).(*types.TypeName); ok {
						return obj.Type(), nil
					}
				}
			}
		}
	}
	return nil, fmt.Errorf("cannot resolve type %v", x)
}

// resolveType resolves a type expression (ident, pkg.Name, *T, []T).
func (env *specEnv) resolveType(x ast.Expr) (types.Type, error) {
	switch t := x.(type) {
	case *ast.Ident:
		if obj := types.Universe.Lookup(t.Name); obj != nil {
			if tn, ok := obj.(*types.TypeName); ok {
				return tn.Type(), nil
			}
		}
		if env.pkg != nil {
			if obj := env.pkg.Scope().Lookup(t.Name); obj != nil {
				if tn, ok := obj.(*types.TypeName); ok {
					return tn.Type(), nil
				}
			}
		}
		return nil, fmt.Errorf("unknown type %s", t.Name)
	case *ast.SelectorExpr:
		if id, ok := t.X.(*ast.Ident); ok {
			if p := env.lookupPkg(id.Name); p != nil {
				if obj := p.Scope().Lookup(t.Sel.Name); obj != nil {
					if tn, ok := obj.(*types.TypeName); ok {
						return tn.Type(), nil
					}
				}
			}
		}
		return nil, fmt.Errorf("unknown type %v", t)
	case *ast.StarExpr:
		el, err := env.resolveType(t.X)
		if err != nil {
			return nil, err
		}
		return types.NewPointer(el), nil
	case *ast.ArrayType:
		el, err := env.resolveType(t.Elt)
		if err != nil {
			return nil, err
		}
		if t.Len == nil {
			return types.NewSlice(el), nil
		}
	case *ast.ParenExpr:
		return env.resolveType(t.X)
	case *ast.UnaryExpr:
		// parser turns "(*T)" in call position into a unary/star
	}
	return nil, fmt.Errorf("unsupported type expression %T", x)
}

func (env *specEnv) nilOf(t T) string {
	switch t.Sort {
	case "Iface":
		return "(= (ityp " + t.S + ") 0)"
	case "Slice":
		return "(= (sarr " + t.S + ") 0)"
	default:
		return "(= " + t.S + " 0)"
	}
}

func (env *specEnv) eval(x ast.Expr) (T, error) {
	f := env.f
	e := f.e
	env.depth++
	defer func() { env.depth-- }()
	if env.depth > 200 {
		return T{}, fmt.Errorf("spec recursion too deep")
	}
	switch x := x.(type) {
	case *ast.ParenExpr:
		return env.eval(x.X)
	case *ast.Ident:
		switch x.Name {
		case "nil":
			return untypedNil, nil
		case "true", "false":
			return T{x.Name, "Bool", types.Typ[types.Bool]}, nil
		}
		if t, ok := env.vars[x.Name]; ok && !(x.Name == "result" && len(env.results) > 0) {
			return t, nil
		}
		if c, ok := env.cells[x.Name]; ok && !(x.Name == "result" && len(env.results) > 0) {
			pt := c.Go.(*types.Pointer)
			srt := e.sortOf(pt.Elem())
			return T{"(select " + e.H(env.cur, "P_"+sanitize(srt), "(Array Int "+srt+")") + " " + c.S + ")", srt, pt.Elem()}, nil
		}
		if x.Name == "result" {
			if len(env.results) == 0 {
				return T{}, fmt.Errorf("no result here")
			}
			return env.results[0], nil
		}
		for i, n := range env.resName {
			if n == x.Name && n != "" && i < len(env.results) {
				return env.results[i], nil
			}
		}
		if strings.HasPrefix(x.Name, "result") {
			if n, err := strconv.Atoi(x.Name[6:]); err == nil && n < len(env.results) {
				return env.results[n], nil
			}
		}
		if le, ok := env.lets[x.Name]; ok {
			return env.eval(le)
		}
		if env.pkg != nil {
			if obj := env.pkg.Scope().Lookup(x.Name); obj != nil {
				if c, ok := obj.(*types.Const); ok {
					return env.constVal(c)
				}
			}
		}
		return T{}, fmt.Errorf("unknown identifier %s", x.Name)
	case *ast.BasicLit:
		switch x.Kind {
		case token.INT:
			return T{x.Value, "Int", types.Typ[types.Int]}, nil
		case token.STRING:
			s, _ := strconv.Unquote(x.Value)
			return T{e.strID(s), "Int", types.Typ[types.String]}, nil
		}
		return T{}, fmt.Errorf("unsupported literal %s", x.Value)
	case *ast.UnaryExpr:
		a, err := env.eval(x.X)
		if err != nil {
			return T{}, err
		}
		switch x.Op {
		case token.NOT:
			return T{not(a.S), "Bool", a.Go}, nil
		case token.SUB:
			return T{"(- " + a.S + ")", a.Sort, a.Go}, nil
		case token.AND:
			return a, nil // &x.f where x.f is struct-typed evaluates to its reference already
		}
		return T{}, fmt.Errorf("unsupported unary %s", x.Op)
	case *ast.BinaryExpr:
		return env.binary(x)
	case *ast.StarExpr:
		a, err := env.eval(x.X)
		if err != nil {
			return T{}, err
		}
		pt, ok := a.Go.Underlying().(*types.Pointer)
		if !ok {
			return T{}, fmt.Errorf("deref of non-pointer")
		}
		if _, ok := pt.Elem().Underlying().(*types.Struct); ok {
			return T{f.loadStruct(a.S, pt.Elem(), env.cur), e.sortOf(pt.Elem()), pt.Elem()}, nil
		}
		srt := e.sortOf(pt.Elem())
		return T{"(select " + e.H(env.cur, "P_"+sanitize(srt), "(Array Int "+srt+")") + " " + a.S + ")", srt, pt.Elem()}, nil
	case *ast.SelectorExpr:
		if id, ok := x.X.(*ast.Ident); ok {
			_, isCell := env.cells[id.Name]
			if _, isVar := env.vars[id.Name]; !isVar && !isCell {
				if _, isLet := env.lets[id.Name]; !isLet {
					if p := env.lookupPkg(id.Name); p != nil {
						obj := p.Scope().Lookup(x.Sel.Name)
						if c, ok := obj.(*types.Const); ok {
							return env.constVal(c)
						}
						return T{}, fmt.Errorf("unsupported package member %s.%s", id.Name, x.Sel.Name)
					}
				}
			}
		}
		a, err := env.eval(x.X)
		if err != nil {
			return T{}, err
		}
		return env.field(a, x.Sel.Name)
	case *ast.IndexExpr:
		a, err := env.eval(x.X)
		if err != nil {
			return T{}, err
		}
		k, err := env.eval(x.Index)
		if err != nil {
			return T{}, err
		}
		switch u := a.Go.Underlying().(type) {
		case *types.Map:
			v, _ := f.mapLookup(a, k.S, env.cur)
			r := T{v, e.sortOf(u.Elem()), u.Elem()}
			env.wf(r)
			if strings.Contains(k.S, "!q") && !strings.Contains(a.S, "!q") {
				// heap well-formedness under a quantified key: every reference stored in the map is allocated
				_, _, mv, mvs := f.mapHeaps(u)
				ks := e.sortOf(u.Key())
				sel := "(select (select " + e.H(env.cur, mv, mvs) + " " + a.S + ") wk)"
				ref := ""
				switch r.Sort {
				case "Int":
					switch u.Elem().Underlying().(type) {
					case *types.Pointer, *types.Map, *types.Chan:
						ref = sel
					}
				case "Iface":
					ref = "(ival " + sel + ")"
				case "Slice":
					ref = "(sarr " + sel + ")"
				}
				if ref != "" {
					e.declFun("owner", []string{"Int"}, "Int")
					e.addDecl("mapwf@"+a.S+"@"+e.H(env.cur, mv, mvs)+"@"+e.H(env.cur, "W", "Int"),
						"(assert (forall ((wk "+ks+")) (! (<= (owner "+ref+") "+e.H(env.cur, "W", "Int")+") :pattern ("+sel+"))))")
				}
			}
			if e.protSet[a.S] {
				f.protect(r)
			}
			return r, nil
		case *types.Slice:
			h, hs := f.elemHeap(u.Elem())
			if h == "" {
				return T{f.elemRef(u.Elem(), "(sarr "+a.S+")", "(+ (soff "+a.S+") "+k.S+")"), "Int", types.NewPointer(u.Elem())}, nil
			}
			return T{"(select (select " + e.H(env.cur, h, hs) + " (sarr " + a.S + ")) (+ (soff " + a.S + ") " + k.S + "))", e.sortOf(u.Elem()), u.Elem()}, nil
		case *types.Array:
			return T{"(select " + a.S + " " + k.S + ")", e.sortOf(u.Elem()), u.Elem()}, nil
		case *types.Pointer:
			if at, ok := u.Elem().Underlying().(*types.Array); ok {
				if _, elS := at.Elem().Underlying().(*types.Struct); elS {
					return T{f.eaTerm(a.S, k.S), "Int", types.NewPointer(at.Elem())}, nil
				}
				// p[k] for p *[N]T: the element heap keyed by the array's address (as IndexAddr does)
				if h, hs := f.elemHeap(at.Elem()); h != "" {
					return T{"(select (select " + e.H(env.cur, h, hs) + " " + a.S + ") " + k.S + ")", e.sortOf(at.Elem()), at.Elem()}, nil
				}
			}
		}
		return T{}, fmt.Errorf("cannot index %s", a.Go)
	case *ast.SliceExpr:
		a, err := env.eval(x.X)
		if err != nil {
			return T{}, err
		}
		if a.Sort != "Slice" {
			return T{}, fmt.Errorf("slice expression on %s", a.Sort)
		}
		lo, hi := "0", "(slen "+a.S+")"
		if x.Low != nil {
			l, err := env.eval(x.Low)
			if err != nil {
				return T{}, err
			}
			lo = l.S
		}
		if x.High != nil {
			h, err := env.eval(x.High)
			if err != nil {
				return T{}, err
			}
			hi = h.S
		}
		return T{"(mk_slice (sarr " + a.S + ") (+ (soff " + a.S + ") " + lo + ") (- " + hi + " " + lo + ") (- (scap " + a.S + ") " + lo + "))", "Slice", a.Go}, nil
	case *ast.TypeAssertExpr:
		a, err := env.eval(x.X)
		if err != nil {
			return T{}, err
		}
		t, err := env.resolveType(x.Type)
		if err != nil {
			return T{}, err
		}
		if _, isI := t.Underlying().(*types.Interface); isI {
			return T{a.S, "Iface", t}, nil
		}
		return T{f.unbox("(ival "+a.S+")", t), e.sortOf(t), t}, nil
	case *ast.CallExpr:
		return env.call(x)
	}
	return T{}, fmt.Errorf("unsupported spec expression %T", x)
}

func (env *specEnv) constVal(c *types.Const) (T, error) {
	e := env.f.e
	switch c.Val().Kind() {
	case constant.Int:
		s := c.Val().ExactString()
		if strings.HasPrefix(s, "-") {
			s = "(- " + s[1:] + ")"
		}
		return T{s, "Int", c.Type()}, nil
	case constant.String:
		return T{e.strID(constant.StringVal(c.Val())), "Int", c.Type()}, nil
	case constant.Bool:
		if constant.BoolVal(c.Val()) {
			return T{"true", "Bool", c.Type()}, nil
		}
		return T{"false", "Bool", c.Type()}, nil
	}
	return T{}, fmt.Errorf("unsupported constant %s", c.Name())
}

// field selects a (possibly promoted) field of a struct value or pointer.
func (env *specEnv) field(a T, name string) (T, error) {
	f := env.f
	e := f.e
	if a.Go == nil {
		return T{}, fmt.Errorf("field %s of untyped term", name)
	}
	obj, path, _ := types.LookupFieldOrMethod(a.Go, true, env.pkg, name)
	if obj == nil {
		// unexported field of another package: search manually
		path = findFieldPath(a.Go, name, 0)
		if path == nil {
			return T{}, fmt.Errorf("no field %s in %s", name, a.Go)
		}
	} else if _, ok := obj.(*types.Var); !ok {
		return T{}, fmt.Errorf("%s is a method, not a field", name)
	}
	cur := a
	for _, idx := range path {
		switch u := cur.Go.Underlying().(type) {
		case *types.Pointer:
			S := u.Elem()
			us, ok := S.Underlying().(*types.Struct)
			if !ok {
				return T{}, fmt.Errorf("field of pointer to non-struct")
			}
			ft := us.Field(idx).Type()
			if _, isS := ft.Underlying().(*types.Struct); isS {
				cur = T{f.subRef(S, idx, cur.S), "Int", types.NewPointer(ft)}
				continue
			}
			if at, isA := ft.Underlying().(*types.Array); isA {
				if _, elS := at.Elem().Underlying().(*types.Struct); elS {
					// array of structs held by value: its elements are sub-objects addressed as in the
					// code (&x.f[i] == ea(fa_f(x), i)); the term denotes the address of the array
					fn := "fa_" + e.structKey(S) + "_" + us.Field(idx).Name()
					e.declFun(fn, []string{"Int"}, "Int")
					cur = T{"(" + fn + " " + cur.S + ")", "Int", types.NewPointer(ft)}
					continue
				}
			}
			h, hs, _, _ := f.heapOfField(S, idx)
			v := T{"(select " + e.H(env.cur, h, hs) + " " + cur.S + ")", e.sortOf(ft), ft}
			if e.isPriv(S) {
				f.protect(v)
			}
			env.wfFrom(v, h, cur.S)
			cur = v
		case *types.Struct:
			k := e.sortOf(cur.Go)
			ft := u.Field(idx).Type()
			cur = T{fmt.Sprintf("(%s_f%d %s)", k, idx, cur.S), e.sortOf(ft), ft}
		default:
			return T{}, fmt.Errorf("field %s of non-struct %s", name, cur.Go)
		}
	}
	return cur, nil
}

func findFieldPath(t types.Type, name string, depth int) []int {
	if depth > 4 {
		return nil
	}
	if p, ok := t.Underlying().(*types.Pointer); ok {
		t = p.Elem()
	}
	st, ok := t.Underlying().(*types.Struct)
	if !ok {
		return nil
	}
	for i := 0; i < st.NumFields(); i++ {
		if st.Field(i).Name() == name {
			return []int{i}
		}
	}
	for i := 0; i < st.NumFields(); i++ {
		if st.Field(i).Embedded() {
			if p := findFieldPath(st.Field(i).Type(), name, depth+1); p != nil {
				return append([]int{i}, p...)
			}
		}
	}
	return nil
}

func (env *specEnv) binary(x *ast.BinaryExpr) (T, error) {
	a, err := env.eval(x.X)
	if err != nil {
		return T{}, err
	}
	b, err := env.eval(x.Y)
	if err != nil {
		return T{}, err
	}
	boolT := types.Typ[types.Bool]
	switch x.Op {
	case token.LAND:
		return T{and(a.S, b.S), "Bool", boolT}, nil
	case token.LOR:
		return T{or(a.S, b.S), "Bool", boolT}, nil
	case token.EQL, token.NEQ:
		var r string
		switch {
		case a.Sort == "nil" && b.Sort == "nil":
			r = "true"
		case b.Sort == "nil":
			r = env.nilOf(a)
		case a.Sort == "nil":
			r = env.nilOf(b)
		case a.Sort != b.Sort:
			return T{}, fmt.Errorf("comparing %s with %s", a.Sort, b.Sort)
		default:
			r = eq(a.S, b.S)
		}
		if x.Op == token.NEQ {
			r = not(r)
		}
		return T{r, "Bool", boolT}, nil
	case token.LSS:
		return T{"(< " + a.S + " " + b.S + ")", "Bool", boolT}, nil
	case token.LEQ:
		return T{"(<= " + a.S + " " + b.S + ")", "Bool", boolT}, nil
	case token.GTR:
		return T{"(> " + a.S + " " + b.S + ")", "Bool", boolT}, nil
	case token.GEQ:
		return T{"(>= " + a.S + " " + b.S + ")", "Bool", boolT}, nil
	case token.ADD:
		return T{"(+ " + a.S + " " + b.S + ")", a.Sort, a.Go}, nil
	case token.SUB:
		return T{"(- " + a.S + " " + b.S + ")", a.Sort, a.Go}, nil
	case token.MUL:
		return T{"(* " + a.S + " " + b.S + ")", a.Sort, a.Go}, nil
	case token.QUO:
		return T{"(div " + a.S + " " + b.S + ")", a.Sort, a.Go}, nil
	case token.REM:
		return T{"(mod " + a.S + " " + b.S + ")", a.Sort, a.Go}, nil
	}
	return T{}, fmt.Errorf("unsupported operator %s", x.Op)
}

func (env *specEnv) call(x *ast.CallExpr) (T, error) {
	f := env.f
	e := f.e
	boolT := types.Typ[types.Bool]
	name := ""
	switch fn := x.Fun.(type) {
	case *ast.Ident:
		name = fn.Name
	case *ast.SelectorExpr:
		// pkg.pred(args): a predicate of another package, by its package name
		if id, ok := fn.X.(*ast.Ident); ok {
			_, isVar := env.vars[id.Name]
			_, isCell := env.cells[id.Name]
			if !isVar && !isCell {
				for path, pk := range e.w.ByPath {
					if strings.HasPrefix(path, modPath) && pk.Types.Name() == id.Name {
						if _, ok := e.db.preds[path+"."+fn.Sel.Name]; ok {
							sub := *env
							sub.pkg = pk.Types
							return sub.call(&ast.CallExpr{Fun: ast.NewIdent(fn.Sel.Name), Args: x.Args})
						}
						// pkg.T(x): conversion to a named type of another package with the same representation
						if tn, ok := pk.Types.Scope().Lookup(fn.Sel.Name).(*types.TypeName); ok && len(x.Args) == 1 {
							a, err := env.eval(x.Args[0])
							if err != nil {
								return T{}, err
							}
							if a.Go != nil && e.sortOf(a.Go) == e.sortOf(tn.Type()) {
								return T{a.S, a.Sort, tn.Type()}, nil
							}
							return T{}, fmt.Errorf("unsupported conversion to %s.%s", id.Name, fn.Sel.Name)
						}
					}
				}
			}
		}
		// method call on a value: pure interface methods / pure functions
		return env.methodCall(fn, x.Args)
	case *ast.ParenExpr:
		// conversion like (*T)(x): not supported
	}
	argN := func(n int) error {
		if len(x.Args) != n {
			return fmt.Errorf("%s expects %d arguments", name, n)
		}
		return nil
	}
	if name != "" && env.pkg != nil && len(x.Args) == 1 {
		// conversion T(x) to a named type of the contract's package with the same representation
		if tn, ok := env.pkg.Scope().Lookup(name).(*types.TypeName); ok {
			a, err := env.eval(x.Args[0])
			if err != nil {
				return T{}, err
			}
			if a.Go != nil && e.sortOf(a.Go) == e.sortOf(tn.Type()) {
				return T{a.S, a.Sort, tn.Type()}, nil
			}
			return T{}, fmt.Errorf("unsupported conversion to %s", name)
		}
	}
	switch name {
	case "old":
		if err := argN(1); err != nil {
			return T{}, err
		}
		return env.with(env.old).eval(x.Args[0])
	case "atlock":
		if err := argN(1); err != nil {
			return T{}, err
		}
		if env.lock == nil {
			return T{}, fmt.Errorf("atlock: no Lock() seen")
		}
		return env.with(env.lock).eval(x.Args[0])
	case "implies":
		if err := argN(2); err != nil {
			return T{}, err
		}
		a, err := env.eval(x.Args[0])
		if err != nil {
			return T{}, err
		}
		b, err := env.eval(x.Args[1])
		if err != nil {
			return T{}, err
		}
		return T{implies(a.S, b.S), "Bool", boolT}, nil
	case "ite":
		if err := argN(3); err != nil {
			return T{}, err
		}
		c, err := env.eval(x.Args[0])
		if err != nil {
			return T{}, err
		}
		a, err := env.eval(x.Args[1])
		if err != nil {
			return T{}, err
		}
		b, err := env.eval(x.Args[2])
		if err != nil {
			return T{}, err
		}
		return T{ite(c.S, a.S, b.S), a.Sort, a.Go}, nil
	case "len", "cap":
		if err := argN(1); err != nil {
			return T{}, err
		}
		a, err := env.eval(x.Args[0])
		if err != nil {
			return T{}, err
		}
		switch a.Sort {
		case "Slice":
			if name == "len" {
				return T{"(slen " + a.S + ")", "Int", types.Typ[types.Int]}, nil
			}
			return T{"(scap " + a.S + ")", "Int", types.Typ[types.Int]}, nil
		case "Int":
			if _, ok := a.Go.Underlying().(*types.Chan); ok {
				if name == "cap" {
					e.declFun("chcap", []string{"Int"}, "Int")
					return T{"(chcap " + a.S + ")", "Int", types.Typ[types.Int]}, nil
				}
				return T{"(select " + e.H(env.cur, "CH_len", chLenSort) + " " + a.S + ")", "Int", types.Typ[types.Int]}, nil
			}
			if _, ok := a.Go.Underlying().(*types.Map); ok {
				return T{f.mapLen(a, env.cur), "Int", types.Typ[types.Int]}, nil
			}
			return T{"(strlen " + a.S + ")", "Int", types.Typ[types.Int]}, nil
		}
		return T{}, fmt.Errorf("len of %s", a.Sort)
	case "closed":
		a, err := env.eval(x.Args[0])
		if err != nil {
			return T{}, err
		}
		return T{f.chClosed(a.S, env.cur), "Bool", boolT}, nil
	case "excl", "held":
		// excl(m): exclusive access to the state guarded by m (lock held, or own unshared allocation);
		// held(m): m is locked by this thread
		a, err := env.eval(x.Args[0])
		if err != nil {
			return T{}, err
		}
		hn := "EXCL"
		if name == "held" {
			hn = "HELD"
		}
		return T{"(select " + e.H(env.cur, hn, "(Array Int Bool)") + " " + a.S + ")", "Bool", boolT}, nil
	case "indom":
		if err := argN(2); err != nil {
			return T{}, err
		}
		m, err := env.eval(x.Args[0])
		if err != nil {
			return T{}, err
		}
		k, err := env.eval(x.Args[1])
		if err != nil {
			return T{}, err
		}
		if _, ok := m.Go.Underlying().(*types.Map); !ok {
			return T{}, fmt.Errorf("indom on non-map")
		}
		_, ok := f.mapLookup(m, k.S, env.cur)
		return T{ok, "Bool", boolT}, nil
	case "typeis", "implements":
		a, err := env.eval(x.Args[0])
		if err != nil {
			return T{}, err
		}
		t, err := env.resolveType(x.Args[1])
		if err != nil {
			return T{}, err
		}
		return T{f.hasType(a.S, t), "Bool", boolT}, nil
	case "typeid":
		t, err := env.resolveType(x.Args[0])
		if err != nil {
			return T{}, err
		}
		return T{fmt.Sprint(e.typeID(t)), "Int", nil}, nil
	case "ptval", "scval", "natval", "ctval", "wlog", "hstate":
		// abstract (ghost) value of a group element / scalar / big number / ciphertext object
		if err := argN(1); err != nil {
			return T{}, err
		}
		a, err := env.eval(x.Args[0])
		if err != nil {
			return T{}, err
		}
		ref := a.S
		if a.Sort == "Iface" {
			ref = "(ival " + a.S + ")"
		} else if a.Sort != "Int" {
			return T{}, fmt.Errorf("%s of %s", name, a.Sort)
		}
		return T{"(select " + e.H(env.cur, "GV_"+name, "(Array Int Int)") + " " + ref + ")", "Int", nil}, nil
	case "lam":
		// lam(k, T, body): the function k -> body as an array (fresh constant with a defining quantified axiom);
		// memoised on the body and the heap versions it is evaluated in
		if err := argN(3); err != nil {
			return T{}, err
		}
		id, ok := x.Args[0].(*ast.Ident)
		if !ok {
			return T{}, fmt.Errorf("lam: first argument must be a variable")
		}
		kt, err := env.resolveType(x.Args[1])
		if err != nil {
			return T{}, err
		}
		ks := e.sortOf(kt)
		e.nfresh++
		vn := fmt.Sprintf("%s!q%d", id.Name, e.nfresh)
		benv := env.bind(id.Name, T{vn, ks, kt})
		benv.nbound = env.nbound + 1
		body, err := benv.eval(x.Args[2])
		if err != nil {
			return T{}, err
		}
		key := "lam@" + strings.ReplaceAll(body.S, vn, "_") + "@" + body.Sort
		if name, ok := e.lamMemo[key]; ok {
			return T{name, "(Array " + ks + " " + body.Sort + ")", nil}, nil
		}
		name := e.fresh("lam", "(Array "+ks+" "+body.Sort+")")
		e.assume("(forall ((" + vn + " " + ks + ")) (! (= (select " + name + " " + vn + ") " + body.S + ") :pattern ((select " + name + " " + vn + "))))")
		e.lamMemo[key] = name
		return T{name, "(Array " + ks + " " + body.Sort + ")", nil}, nil
	case "visitedset":
		lit, ok := x.Args[0].(*ast.BasicLit)
		if !ok {
			return T{}, fmt.Errorf("visitedset: argument must be a loop ordinal")
		}
		ord, _ := strconv.Atoi(lit.Value)
		for hb, li := range f.loops {
			if li.ord != ord {
				continue
			}
			for _, ins := range hb.Instrs {
				if nx, ok := ins.(*ssa.Next); ok {
					if rg, ok := nx.Iter.(*ssa.Range); ok {
						if mt, ok := rg.X.Type().Underlying().(*types.Map); ok {
							ks := e.sortOf(mt.Key())
							return T{e.H(env.cur, f.visHeap(rg), "(Array "+ks+" Bool)"), "(Array " + ks + " Bool)", nil}, nil
						}
					}
				}
			}
		}
		return T{}, fmt.Errorf("visitedset: loop %d is not a map iteration", ord)
	case "domset":
		m, err := env.eval(x.Args[0])
		if err != nil {
			return T{}, err
		}
		mt, ok := m.Go.Underlying().(*types.Map)
		if !ok {
			return T{}, fmt.Errorf("domset of non-map")
		}
		d, ds, _, _ := f.mapHeaps(mt)
		return T{"(select " + e.H(env.cur, d, ds) + " " + m.S + ")", "(Array " + e.sortOf(mt.Key()) + " Bool)", nil}, nil
	case "mapval":
		// mapval(m): the whole key -> value function of map m (for frame statements: mapval(m) == old(mapval(m)))
		m, err := env.eval(x.Args[0])
		if err != nil {
			return T{}, err
		}
		mt, ok := m.Go.Underlying().(*types.Map)
		if !ok {
			return T{}, fmt.Errorf("mapval of non-map")
		}
		_, _, v, vs := f.mapHeaps(mt)
		return T{"(select " + e.H(env.cur, v, vs) + " " + m.S + ")", "(Array " + e.sortOf(mt.Key()) + " " + e.sortOf(mt.Elem()) + ")", nil}, nil
	case "inslice":
		// inslice(s, x): x occurs among the elements of slice s
		if err := argN(2); err != nil {
			return T{}, err
		}
		sv, err := env.eval(x.Args[0])
		if err != nil {
			return T{}, err
		}
		xv, err := env.eval(x.Args[1])
		if err != nil {
			return T{}, err
		}
		stp, ok := sv.Go.Underlying().(*types.Slice)
		if !ok {
			return T{}, fmt.Errorf("inslice: not a slice")
		}
		h, hs := f.elemHeap(stp.Elem())
		if h == "" {
			return T{}, fmt.Errorf("inslice over slice of structs")
		}
		es := e.sortOf(stp.Elem())
		e.declFun("sliceset_"+sanitize(es), []string{"(Array Int " + es + ")", "Int", "Int"}, "(Array "+es+" Bool)")
		e.slicesetAxioms(es)
		return T{"(select (sliceset_" + sanitize(es) + " (select " + e.H(env.cur, h, hs) + " (sarr " + sv.S + ")) (soff " + sv.S + ") (slen " + sv.S + ")) " + xv.S + ")", "Bool", boolT}, nil
	case "strictinc":
		// strictinc(s): the elements of s are strictly increasing (pairwise, over absolute array positions so that
		// the quantifier has arithmetic-free patterns)
		a, err := env.eval(x.Args[0])
		if err != nil {
			return T{}, err
		}
		stp, ok := a.Go.Underlying().(*types.Slice)
		if !ok || a.Sort != "Slice" {
			return T{}, fmt.Errorf("strictinc of non-slice")
		}
		h, hs := f.elemHeap(stp.Elem())
		if h == "" || e.sortOf(stp.Elem()) != "Int" {
			return T{}, fmt.Errorf("strictinc: unsupported element type")
		}
		e.nfresh++
		pv, qv := fmt.Sprintf("p!q%d", e.nfresh), fmt.Sprintf("q!q%d", e.nfresh)
		arr := "(select " + e.H(env.cur, h, hs) + " (sarr " + a.S + "))"
		return T{"(forall ((" + pv + " Int) (" + qv + " Int)) (! (=> (and (<= (soff " + a.S + ") " + pv + ") (< " + pv + " " + qv + ") (< " + qv + " (+ (soff " + a.S + ") (slen " + a.S + ")))) (< (select " + arr + " " + pv + ") (select " + arr + " " + qv + "))) :pattern ((select " + arr + " " + pv + ") (select " + arr + " " + qv + "))))", "Bool", boolT}, nil
	case "idsval":
		// abstract value of a slice of identifiers (contents, not the array identity)
		a, err := env.eval(x.Args[0])
		if err != nil {
			return T{}, err
		}
		if a.Sort != "Slice" {
			return T{}, fmt.Errorf("idsval of %s", a.Sort)
		}
		e.declFun("idsval", []string{"(Array Int Int)", "Int", "Int"}, "Int")
		h, hs := f.elemHeap(types.Typ[types.String])
		return T{"(idsval (select " + e.H(env.cur, h, hs) + " (sarr " + a.S + ")) (soff " + a.S + ") (slen " + a.S + "))", "Int", nil}, nil
	case "visited":
		// visited(n, k): key k has already been produced by the map iteration of loop n
		if err := argN(2); err != nil {
			return T{}, err
		}
		lit, ok := x.Args[0].(*ast.BasicLit)
		if !ok {
			return T{}, fmt.Errorf("visited: first argument must be a loop ordinal")
		}
		ord, _ := strconv.Atoi(lit.Value)
		k, err := env.eval(x.Args[1])
		if err != nil {
			return T{}, err
		}
		for hb, li := range f.loops {
			if li.ord != ord {
				continue
			}
			for _, ins := range hb.Instrs {
				if nx, ok := ins.(*ssa.Next); ok {
					if rg, ok := nx.Iter.(*ssa.Range); ok {
						if mt, ok := rg.X.Type().Underlying().(*types.Map); ok {
							ks := e.sortOf(mt.Key())
							return T{"(select " + e.H(env.cur, f.visHeap(rg), "(Array "+ks+" Bool)") + " " + k.S + ")", "Bool", boolT}, nil
						}
					}
				}
			}
		}
		return T{}, fmt.Errorf("visited: loop %d is not a map iteration", ord)
	case "bval":
		// abstract content of a byte slice (function of the bytes, not of the array identity)
		if err := argN(1); err != nil {
			return T{}, err
		}
		a, err := env.eval(x.Args[0])
		if err != nil {
			return T{}, err
		}
		if a.Sort != "Slice" {
			return T{}, fmt.Errorf("bval of %s", a.Sort)
		}
		e.declFun("bytesval", []string{"(Array Int Int)", "Int", "Int"}, "Int")
		h, hs := f.elemHeap(types.Typ[types.Uint8])
		return T{"(bytesval (select " + e.H(env.cur, h, hs) + " (sarr " + a.S + ")) (soff " + a.S + ") (slen " + a.S + "))", "Int", nil}, nil
	case "iface":
		// iface(x): x converted to an interface value (as the compiler does when passing x as interface{})
		a, err := env.eval(x.Args[0])
		if err != nil {
			return T{}, err
		}
		if a.Sort == "Iface" {
			return a, nil
		}
		if a.Go == nil {
			return T{}, fmt.Errorf("iface of untyped term")
		}
		id := e.typeID(a.Go)
		payload := a.S
		switch a.Go.Underlying().(type) {
		case *types.Pointer, *types.Map, *types.Chan, *types.Signature:
		case *types.Basic:
			if a.Sort != "Int" {
				payload = f.box(a)
			}
		default:
			payload = f.box(a)
		}
		return T{"(mk_iface " + fmt.Sprint(id) + " " + payload + ")", "Iface", types.NewInterfaceType(nil, nil)}, nil
	case "strbval":
		// abstract content of []byte(s)
		a, err := env.eval(x.Args[0])
		if err != nil {
			return T{}, err
		}
		e.declFun("bytesval", []string{"(Array Int Int)", "Int", "Int"}, "Int")
		e.declFun("strbytes", []string{"Int"}, "(Array Int Int)")
		return T{"(bytesval (strbytes " + a.S + ") 0 (strlen " + a.S + "))", "Int", nil}, nil
	case "byte1val":
		// abstract content of []byte{b}
		a, err := env.eval(x.Args[0])
		if err != nil {
			return T{}, err
		}
		e.declFun("bytesval", []string{"(Array Int Int)", "Int", "Int"}, "Int")
		return T{"(bytesval (store ((as const (Array Int Int)) 0) 0 " + a.S + ") 0 1)", "Int", nil}, nil
	case "abs":
		a, err := env.eval(x.Args[0])
		if err != nil {
			return T{}, err
		}
		return T{"(ite (>= " + a.S + " 0) " + a.S + " (- " + a.S + "))", "Int", a.Go}, nil
	case "lastbytes":
		// lastbytes(fn): abstract content of the byte slice returned by the most recent call of fn
		id, ok := x.Args[0].(*ast.Ident)
		if !ok {
			return T{}, fmt.Errorf("lastbytes: argument must be a function name")
		}
		return T{e.H(env.cur, "LASTB_"+id.Name, "Int"), "Int", nil}, nil
	case "callcount":
		id, ok := x.Args[0].(*ast.Ident)
		if !ok {
			return T{}, fmt.Errorf("callcount: argument must be a function name")
		}
		return T{e.H(env.cur, "COUNT_"+id.Name, "Int"), "Int", types.Typ[types.Int]}, nil
	case "fold":
		// fold(s, init, acc, x, body): left fold of body over the elements of slice s (acc, x bound);
		// expanded for statically known short slices, otherwise an opaque function of init and the contents
		if err := argN(5); err != nil {
			return T{}, err
		}
		sv, err := env.eval(x.Args[0])
		if err != nil {
			return T{}, err
		}
		acc, err := env.eval(x.Args[1])
		if err != nil {
			return T{}, err
		}
		an, ok1 := x.Args[2].(*ast.Ident)
		xn, ok2 := x.Args[3].(*ast.Ident)
		stp, ok3 := sv.Go.Underlying().(*types.Slice)
		if !ok1 || !ok2 || !ok3 {
			return T{}, fmt.Errorf("fold: bad arguments")
		}
		h, hs := f.elemHeap(stp.Elem())
		esort := e.sortOf(stp.Elem())
		if n, ok := staticSliceLen(sv.S); ok && n <= 32 && h != "" {
			for k := 0; k < n; k++ {
				el := T{"(select (select " + e.H(env.cur, h, hs) + " (sarr " + sv.S + ")) (+ (soff " + sv.S + ") " + fmt.Sprint(k) + "))", esort, stp.Elem()}
				nx, err := env.bind(an.Name, acc).bind(xn.Name, el).eval(x.Args[4])
				if err != nil {
					return T{}, err
				}
				acc = nx
			}
			return acc, nil
		}
		if h == "" {
			return T{}, fmt.Errorf("fold over slice of structs")
		}
		// one opaque function per fold body (folds with different bodies must not be identified)
		fn := "foldopaque_" + sanitize(esort) + "_" + fmt.Sprintf("%08x", fnv32(types.ExprString(x.Args[4])))
		e.declFun(fn, []string{acc.Sort, "(Array Int " + esort + ")", "Int", "Int"}, acc.Sort)
		e.addDecl("axiom:"+fn, "(assert (forall ((i "+acc.Sort+") (a (Array Int "+esort+")) (o Int)) (! (= ("+fn+" i a o 0) i) :pattern (("+fn+" i a o 0)))))")
		return T{"(" + fn + " " + acc.S + " (select " + e.H(env.cur, h, hs) + " (sarr " + sv.S + ")) (soff " + sv.S + ") (slen " + sv.S + "))", acc.Sort, acc.Go}, nil
	case "calledwith":
		// calledwith(fn, x): the reference x was an argument of a call to fn made by this function on this path
		if err := argN(2); err != nil {
			return T{}, err
		}
		id, ok := x.Args[0].(*ast.Ident)
		if !ok {
			return T{}, fmt.Errorf("calledwith: first argument must be a function name")
		}
		a, err := env.eval(x.Args[1])
		if err != nil {
			return T{}, err
		}
		if a.Sort != "Int" {
			return T{}, fmt.Errorf("calledwith: second argument must be a reference")
		}
		return T{"(select " + e.H(env.cur, "ARGS_"+id.Name, "(Array Int Bool)") + " " + a.S + ")", "Bool", boolT}, nil
	case "called":
		// called(fn): the named function of this package has been called on this path
		id, ok := x.Args[0].(*ast.Ident)
		if !ok {
			return T{}, fmt.Errorf("called: argument must be a function name")
		}
		return T{e.H(env.cur, "CALLED_"+id.Name, "Bool"), "Bool", boolT}, nil
	case "nochange":
		// nochange(): no modelled heap differs from its state just after the first Lock() (or at entry)
		base := env.lock
		if base == nil {
			base = env.old
		}
		var cs []string
		var names []string
		for n := range e.heapSort {
			names = append(names, n)
		}
		sort.Strings(names)
		e.declFun("owner", []string{"Int"}, "Int")
		w0 := e.H(base, "W", "Int")
		if f.root != nil && f.root.entrySt != nil {
			w0 = e.H(f.root.entrySt, "W", "Int") // locals allocated by this activation are not observable
		}
		for _, n := range names {
			if n == "W" || n == "EXCL" || n == "HELD" || strings.HasPrefix(n, "LAST_") || strings.HasPrefix(n, "CALLED_") || strings.HasPrefix(n, "COUNT_") || strings.HasPrefix(n, "ARGS_") || strings.HasPrefix(n, "VIS_") || strings.HasPrefix(n, "LASTB_") {
				continue
			}
			if e.ver(base, n) == e.ver(env.cur, n) {
				continue
			}
			if !strings.HasPrefix(e.heapSort[n], "(Array Int ") {
				cs = append(cs, eq(e.H(base, n, e.heapSort[n]), e.H(env.cur, n, e.heapSort[n])))
				continue
			}
			// objects that existed then keep their contents (objects allocated since are not observable before)
			cs = append(cs, "(forall ((fr Int)) (=> (<= (owner fr) "+w0+") (= (select "+e.H(env.cur, n, e.heapSort[n])+" fr) (select "+e.H(base, n, e.heapSort[n])+" fr))))")
		}
		for c := 0; c < 2; c++ {
			if base.base[c] != env.cur.base[c] {
				cs = append(cs, "false")
			}
		}
		return T{and(cs...), "Bool", boolT}, nil
	case "lastresult":
		// lastresult(fn): the boolean result of the most recent call of the named function on this path
		id, ok := x.Args[0].(*ast.Ident)
		if !ok {
			return T{}, fmt.Errorf("lastresult: argument must be a function name")
		}
		return T{e.H(env.cur, "LAST_"+id.Name, "Bool"), "Bool", boolT}, nil
	case "isptrtype":
		// isptrtype(tag): the dynamic type with this tag is a pointer type
		a, err := env.eval(x.Args[0])
		if err != nil {
			return T{}, err
		}
		e.declFun("ptrtype", []string{"Int"}, "Bool")
		f.ptrTypeFacts()
		return T{"(ptrtype " + a.S + ")", "Bool", boolT}, nil
	case "refof", "dyntype":
		a, err := env.eval(x.Args[0])
		if err != nil {
			return T{}, err
		}
		if a.Sort != "Iface" {
			return T{}, fmt.Errorf("%s of non-interface", name)
		}
		if name == "refof" {
			return T{"(ival " + a.S + ")", "Int", nil}, nil
		}
		return T{"(ityp " + a.S + ")", "Int", nil}, nil
	case "fresh":
		a, err := env.eval(x.Args[0])
		if err != nil {
			return T{}, err
		}
		ref := a.S
		if a.Sort == "Iface" {
			ref = "(ival " + a.S + ")"
		} else if a.Sort == "Slice" {
			ref = "(sarr " + a.S + ")"
		}
		e.declFun("owner", []string{"Int"}, "Int")
		return T{"(> (owner " + ref + ") " + e.H(env.old, "W", "Int") + ")", "Bool", boolT}, nil
	case "newer":
		// newer(x, y): the object x (backing array of a slice, referent of a pointer/interface) is nil or was
		// allocated after the object y
		if err := argN(2); err != nil {
			return T{}, err
		}
		var refs []string
		for _, ax := range x.Args {
			a, err := env.eval(ax)
			if err != nil {
				return T{}, err
			}
			ref := a.S
			if a.Sort == "Iface" {
				ref = "(ival " + a.S + ")"
			} else if a.Sort == "Slice" {
				ref = "(sarr " + a.S + ")"
			}
			refs = append(refs, ref)
		}
		e.declFun("owner", []string{"Int"}, "Int")
		return T{"(or (= " + refs[0] + " 0) (> (owner " + refs[0] + ") (owner " + refs[1] + ")))", "Bool", boolT}, nil
	case "unchanged":
		var cs []string
		for _, a := range x.Args {
			n, err := env.eval(a)
			if err != nil {
				return T{}, err
			}
			o, err := env.with(env.old).eval(a)
			if err != nil {
				return T{}, err
			}
			cs = append(cs, eq(o.S, n.S))
		}
		return T{and(cs...), "Bool", boolT}, nil
	case "each":
		// each(s, x, body): body holds for every element x of slice s (quantified over absolute
		// positions in the backing array so that E-matching has a plain select pattern);
		// expanded into a conjunction when s has a statically known small length
		if err := argN(3); err != nil {
			return T{}, err
		}
		id, ok := x.Args[1].(*ast.Ident)
		if !ok {
			return T{}, fmt.Errorf("each: second argument must be a variable")
		}
		sv, err := env.eval(x.Args[0])
		if err != nil {
			return T{}, err
		}
		stp, ok := sv.Go.Underlying().(*types.Slice)
		if !ok {
			return T{}, fmt.Errorf("each over non-slice")
		}
		h, hs := f.elemHeap(stp.Elem())
		if h == "" {
			return T{}, fmt.Errorf("each over slice of structs not supported")
		}
		esort := e.sortOf(stp.Elem())
		if n, ok := staticSliceLen(sv.S); ok && n <= 16 {
			var cs []string
			for k := 0; k < n; k++ {
				el := T{"(select (select " + e.H(env.cur, h, hs) + " (sarr " + sv.S + ")) (+ (soff " + sv.S + ") " + fmt.Sprint(k) + "))", esort, stp.Elem()}
				b, err := env.bind(id.Name, el).eval(x.Args[2])
				if err != nil {
					return T{}, err
				}
				cs = append(cs, b.S)
			}
			return T{and(cs...), "Bool", boolT}, nil
		}
		e.nfresh++
		vn := fmt.Sprintf("pos!q%d", e.nfresh)
		el := T{"(select (select " + e.H(env.cur, h, hs) + " (sarr " + sv.S + ")) " + vn + ")", esort, stp.Elem()}
		benv := env.bind(id.Name, el)
		benv.nbound = env.nbound + 1
		b, err := benv.eval(x.Args[2])
		if err != nil {
			return T{}, err
		}
		return T{"(forall ((" + vn + " Int)) (=> (and (<= (soff " + sv.S + ") " + vn + ") (< " + vn + " (+ (soff " + sv.S + ") (slen " + sv.S + ")))) " + b.S + "))", "Bool", boolT}, nil
	case "forall", "exists":
		if err := argN(3); err != nil {
			return T{}, err
		}
		id, ok := x.Args[0].(*ast.Ident)
		if !ok {
			return T{}, fmt.Errorf("%s: first argument must be a variable", name)
		}
		var t types.Type
		if tid, ok := x.Args[1].(*ast.Ident); ok && tid.Name == "integer" {
			t = types.Typ[types.UntypedInt] // mathematical integer: no machine range
		} else {
			var err error
			t, err = env.resolveType(x.Args[1])
			if err != nil {
				return T{}, err
			}
		}
		e.nfresh++
		vn := fmt.Sprintf("%s!q%d", id.Name, e.nfresh)
		srt := e.sortOf(t)
		benv := env.bind(id.Name, T{vn, srt, t})
		benv.nbound = env.nbound + 1
		body, err := benv.eval(x.Args[2])
		if err != nil {
			return T{}, err
		}
		// range facts of the bound variable (without allocation bounds)
		rf := "true"
		if b, ok := t.Underlying().(*types.Basic); ok && b.Info()&types.IsInteger != 0 && b.Kind() != types.UntypedInt {
			rf = f.facts(vn, t, env.cur)
		}
		if name == "forall" {
			return T{"(forall ((" + vn + " " + srt + ")) " + implies(rf, body.S) + ")", "Bool", boolT}, nil
		}
		return T{"(exists ((" + vn + " " + srt + ")) " + and(rf, body.S) + ")", "Bool", boolT}, nil
	}
	p, ok := (*Pred)(nil), false
	if env.pkg != nil {
		p, ok = e.db.preds[env.pkg.Path()+"."+name]
	}
	if !ok {
		p, ok = e.db.preds[name]
		if ok && e.db.ambiguous[name] {
			return T{}, fmt.Errorf("predicate %s is defined in several packages and not in %v", name, env.pkg)
		}
	}
	if ok {
		if len(x.Args) != len(p.Params) {
			return T{}, fmt.Errorf("pred %s expects %d arguments", name, len(p.Params))
		}
		penv := &specEnv{f: f, vars: map[string]T{}, cur: env.cur, old: env.old, lock: env.lock, pkg: p.Pkg, depth: env.depth,
			results: env.results, resName: env.resName, nbound: env.nbound}
		if penv.pkg == nil {
			penv.pkg = env.pkg
		}
		for i, a := range x.Args {
			t, err := env.eval(a)
			if err != nil {
				return T{}, err
			}
			if t.Sort == "nil" && p.PTypes[i] != nil {
				pt, err := penv.resolveType(p.PTypes[i])
				if err == nil {
					t = T{e.zero(pt), e.sortOf(pt), pt}
				}
			}
			if t.Go == nil && p.PTypes[i] != nil {
				if pt, err := penv.resolveType(p.PTypes[i]); err == nil {
					t.Go = pt
				}
			}
			penv.vars[p.Params[i]] = t
		}
		return penv.eval(p.Body)
	}
	if sf, ok := e.db.specFns[name]; ok {
		if len(x.Args) != len(sf.Args) {
			return T{}, fmt.Errorf("spec fn %s expects %d arguments", name, len(sf.Args))
		}
		e.declFun(sf.Name, sf.Args, sf.Ret)
		var as []string
		for i, a := range x.Args {
			t, err := env.eval(a)
			if err != nil {
				return T{}, err
			}
			if t.Sort == "nil" {
				switch sf.Args[i] {
				case "Iface":
					t.S = "(mk_iface 0 0)"
				case "Slice":
					t.S = "(mk_slice 0 0 0 0)"
				default:
					t.S = "0"
				}
				t.Sort = sf.Args[i]
			}
			if t.Sort != sf.Args[i] {
				return T{}, fmt.Errorf("spec fn %s argument %d: sort %s, want %s", name, i, t.Sort, sf.Args[i])
			}
			as = append(as, t.S)
		}
		if len(as) == 0 {
			return T{sf.Name, sf.Ret, nil}, nil
		}
		return T{"(" + sf.Name + " " + strings.Join(as, " ") + ")", sf.Ret, nil}, nil
	}
	return T{}, fmt.Errorf("unknown spec function %s", name)
}

var staticSliceRe = regexp.MustCompile(`^\(mk_slice \S+ 0 \(- (\d+) 0\) \(- (\d+) 0\)\)$`)

// staticSliceLen recognises the slice term built for a variadic argument list ("new [k]T; t[:]").
func staticSliceLen(s string) (int, bool) {
	if s == "(mk_slice 0 0 0 0)" {
		return 0, true // the nil slice
	}
	m := staticSliceRe.FindStringSubmatch(s)
	if m == nil {
		return 0, false
	}
	n, err := strconv.Atoi(m[1])
	return n, err == nil
}

// ptrTypeFacts states, for every concrete type tag in use, whether it is a pointer type.
func (f *frame) ptrTypeFacts() {
	e := f.e
	for id, ct := range e.knownTypes() {
		_, isP := ct.Underlying().(*types.Pointer)
		v := "false"
		if isP {
			v = "true"
		}
		e.addDecl(fmt.Sprintf("ptrfact@%d", id), fmt.Sprintf("(assert (= (ptrtype %d) %s))", id, v))
	}
}

// methodCall evaluates x.M(args) for pure interface methods (declared `pure` in an interface contract).
func (env *specEnv) methodCall(sel *ast.SelectorExpr, args []ast.Expr) (T, error) {
	f := env.f
	recv, err := env.eval(sel.X)
	if err != nil {
		return T{}, err
	}
	if recv.Go == nil {
		return T{}, fmt.Errorf("method call on untyped term")
	}
	obj, _, _ := types.LookupFieldOrMethod(recv.Go, true, env.pkg, sel.Sel.Name)
	m, ok := obj.(*types.Func)
	if !ok {
		return T{}, fmt.Errorf("no method %s on %s", sel.Sel.Name, recv.Go)
	}
	var as []T
	for _, a := range args {
		t, err := env.eval(a)
		if err != nil {
			return T{}, err
		}
		as = append(as, t)
	}
	if recv.Sort == "Iface" {
		c := f.e.db.byIface[m.FullName()]
		if c == nil || !c.Pure {
			return T{}, fmt.Errorf("method %s is not declared pure in an interface contract", m.FullName())
		}
		return f.pureIfaceCall(c, recv, as), nil
	}
	return T{}, fmt.Errorf("method calls on concrete receivers are not supported in specs (%s)", m.FullName())
}

// pureIfaceCall is the uninterpreted result of a pure interface method.
func (f *frame) pureIfaceCall(c *Contract, recv T, args []T) T {
	e := f.e
	name := "m_" + sanitize(strings.TrimPrefix(c.Key, "("+modPath+"/"))
	sorts := []string{"Iface"}
	ts := []string{recv.S}
	for _, a := range args {
		sorts = append(sorts, a.Sort)
		ts = append(ts, a.S)
	}
	rt := c.Sig.Results().At(0).Type()
	rs := e.sortOf(rt)
	e.declFun(name, sorts, rs)
	if len(args) == 0 {
		f.constMethodFacts(c, name, rs)
	}
	return T{"(" + name + " " + strings.Join(ts, " ") + ")", rs, rt}
}

// constMethodFacts reads, for a pure interface method without arguments, the implementations among the module's own
// types whose body is "return <constant>" (round numbers: func (presign7) Number() round.Number { return 7 }) and
// states the value per dynamic type. The facts are taken from the SSA of the code under check on every run; a type
// whose method computes anything gets no fact.
func (f *frame) constMethodFacts(c *Contract, name, rsort string) {
	e := f.e
	key := "constmethod@" + name
	if e.declared[key+"@seen"] {
		return
	}
	e.declared[key+"@seen"] = true
	if rsort != "Int" && rsort != "Bool" || len(c.ParamTypes) == 0 {
		return
	}
	it, ok := c.ParamTypes[0].Underlying().(*types.Interface)
	if !ok {
		return
	}
	mname := c.Key[strings.LastIndex(c.Key, ".")+1:]
	var paths []string
	for path := range e.db.w.ByPath {
		if strings.HasPrefix(path, modPath) {
			paths = append(paths, path)
		}
	}
	sort.Strings(paths)
	// closed world: a single named type of the module implements the interface (see typeImplFacts)
	nImpl := 0
	for _, path := range paths {
		p := e.db.w.ByPath[path]
		if p.Types == nil {
			continue
		}
		sc := p.Types.Scope()
		for _, tnName := range sc.Names() {
			tn, ok := sc.Lookup(tnName).(*types.TypeName)
			if !ok || tn.IsAlias() {
				continue
			}
			if _, isI := tn.Type().Underlying().(*types.Interface); isI {
				continue
			}
			if types.Implements(tn.Type(), it) || types.Implements(types.NewPointer(tn.Type()), it) {
				nImpl++
			}
		}
	}
	closedWorld := nImpl <= 1
	var cases []string
	n := 0
	for _, path := range paths {
		p := e.db.w.ByPath[path]
		if p.Types == nil {
			continue
		}
		sc := p.Types.Scope()
		for _, tnName := range sc.Names() {
			tn, ok := sc.Lookup(tnName).(*types.TypeName)
			if !ok || tn.IsAlias() {
				continue
			}
			if _, isI := tn.Type().Underlying().(*types.Interface); isI {
				continue
			}
			cands := []types.Type{tn.Type()}
			if !types.Implements(tn.Type(), it) {
				cands = []types.Type{types.NewPointer(tn.Type())}
			} else if !closedWorld {
				// a value type that implements the interface is usually boxed through a pointer (&broadcast2{...}); the
				// pointer type gets its fact too - except for a closed-world interface (a single implementing type: the
				// closed-world axiom names T as THE implementation and a tag for *T would contradict it)
				cands = append(cands, types.NewPointer(tn.Type()))
			}
			for _, t := range cands {
				if !types.Implements(t, it) {
					continue
				}
				obj, _, _ := types.LookupFieldOrMethod(t, false, p.Types, mname)
				m, ok := obj.(*types.Func)
				if !ok {
					continue
				}
				fn := e.db.w.Prog.FuncValue(m)
				if fn == nil || len(fn.Blocks) != 1 {
					continue
				}
				var ret *ssa.Return
				clean := true
				for _, in := range fn.Blocks[0].Instrs {
					switch x := in.(type) {
					case *ssa.Return:
						ret = x
					case *ssa.DebugRef:
					default:
						clean = false
					}
				}
				if !clean || ret == nil || len(ret.Results) != 1 {
					continue
				}
				k, ok := ret.Results[0].(*ssa.Const)
				if !ok || k.Value == nil {
					continue
				}
				var v string
				switch k.Value.Kind() {
				case constant.Int:
					iv, exact := constant.Int64Val(k.Value)
					if !exact {
						continue
					}
					v = smtInt(iv)
				case constant.Bool:
					v = fmt.Sprint(constant.BoolVal(k.Value))
				default:
					continue
				}
				cases = append(cases, fmt.Sprintf("(=> (= (ityp x) %d) (= (%s x) %s))", e.typeID(t), name, v))
				n++
			}
		}
	}
	if n == 0 {
		return
	}
	e.note(fmt.Sprintf("constant methods read from the code: %s has a constant body in %d implementing types", c.Key, n))
	e.addDecl(key, "(assert (forall ((x Iface)) (! (and "+strings.Join(cases, " ")+" true) :pattern (("+name+" x)))))")
}

func smtInt(v int64) string {
	if v < 0 {
		return fmt.Sprintf("(- %d)", -v)
	}
	return fmt.Sprint(v)
}

func (f *frame) mapLen(m T, st *State) string {
	mt := m.Go.Underlying().(*types.Map)
	d, ds, _, _ := f.mapHeaps(mt)
	fn := "maplen_" + typeKey(mt)
	f.e.declFun(fn, []string{"(Array " + f.e.sortOf(mt.Key()) + " Bool)"}, "Int")
	return "(" + fn + " (select " + f.e.H(st, d, ds) + " " + m.S + "))"
}

// slicesetAxioms relates the abstract element set of a slice to its positions: every position's element is in the
// set, and every member has a witness position (Skolem function slicepos_). Both hold of the real element set.
func (e *Enc) slicesetAxioms(es string) {
	ss := "sliceset_" + sanitize(es)
	sp := "slicepos_" + sanitize(es)
	key := "axiom:" + ss
	if e.declared[key] {
		return
	}
	e.declFun(sp, []string{"(Array Int " + es + ")", "Int", "Int", es}, "Int")
	e.addDecl(key, "(assert (forall ((a (Array Int "+es+")) (o Int) (n Int) (p Int)) (! (=> (and (<= o p) (< p (+ o n))) (select ("+ss+" a o n) (select a p))) :pattern (("+ss+" a o n) (select a p)))))\n"+
		"(assert (forall ((a (Array Int "+es+")) (o Int) (n Int) (x "+es+")) (! (=> (select ("+ss+" a o n) x) (and (<= o ("+sp+" a o n x)) (< ("+sp+" a o n x) (+ o n)) (= (select a ("+sp+" a o n x)) x))) :pattern ((select ("+ss+" a o n) x)))))")
}
