package main

import (
	"bytes"
	"context"
	"fmt"
	"os"
	"os/exec"
	"path/filepath"
	"strings"
	"sync"
	"time"
)

type solver struct {
	name string
	args func(timeoutMs int) []string
}

var solvers = []solver{
	{"z3-new", func(t int) []string { return []string{"z3-new", "-in", fmt.Sprintf("-t:%d", t)} }},
	{"z3", func(t int) []string { return []string{"z3", "-in", fmt.Sprintf("-t:%d", t)} }},
	{"cvc5", func(t int) []string {
		return []string{"cvc5", "--lang=smt2", "--incremental", "--strings-exp", fmt.Sprintf("--tlimit-per=%d", t), "-"}
	}},
}

func solverByName(n string) *solver {
	for i := range solvers {
		if solvers[i].name == n {
			return &solvers[i]
		}
	}
	return nil
}

// runSolver feeds script to the solver and returns the answer lines (sat/unsat/unknown/timeout) and raw output.
func runSolver(s *solver, script string, timeoutMs int, nQueries int) ([]string, string, float64) {
	t0 := time.Now()
	total := time.Duration(timeoutMs*(nQueries+1))*time.Millisecond + 5*time.Second
	ctx, cancel := context.WithTimeout(context.Background(), total)
	defer cancel()
	a := s.args(timeoutMs)
	cmd := exec.CommandContext(ctx, a[0], a[1:]...)
	cmd.Stdin = strings.NewReader(script)
	var out bytes.Buffer
	cmd.Stdout = &out
	cmd.Stderr = &out
	_ = cmd.Run()
	secs := time.Since(t0).Seconds()
	raw := out.String()
	var ans []string
	for _, l := range strings.Split(raw, "\n") {
		l = strings.TrimSpace(l)
		switch l {
		case "sat", "unsat", "unknown", "timeout":
			ans = append(ans, l)
		}
	}
	return ans, raw, secs
}

type solveOpts struct {
	timeoutMs int
	workers   int
	keepDir   string // where to write failing scripts
}

// solveFn discharges all obligations of one function result.
func solveFn(r *FnResult, o solveOpts) {
	if r.Err != "" || r.Enc == nil {
		return
	}
	script, obs := r.Enc.script(o.timeoutMs)
	if len(obs) == 0 {
		return
	}
	primary := &solvers[0]
	ans, raw, secs := runSolver(primary, script, o.timeoutMs, len(obs))
	if strings.Contains(raw, "(error") {
		// malformed query: engine failure, never a pass
		r.Err = "solver reported an error on the script of " + r.Rel + ": " + firstError(raw)
		if o.keepDir != "" {
			_ = os.MkdirAll(o.keepDir, 0o755)
			_ = os.WriteFile(filepath.Join(o.keepDir, sanitize(r.Rel)+".err.smt2"), []byte(script), 0o644)
		}
		return
	}
	per := secs / float64(len(obs))
	for i, ob := range obs {
		a := "unknown"
		if i < len(ans) {
			a = ans[i]
		}
		ob.Solver = primary.name
		ob.Secs = per
		classify(ob, a)
	}
	// retry everything not decided on the other solvers, standalone, with models
	var wg sync.WaitGroup
	sem := make(chan struct{}, max(1, o.workers))
	for _, ob := range obs {
		if ob.Status == "discharged" {
			continue
		}
		ob := ob
		wg.Add(1)
		sem <- struct{}{}
		go func() {
			defer wg.Done()
			defer func() { <-sem }()
			retry(r, ob, o)
		}()
	}
	wg.Wait()
}

func firstError(raw string) string {
	for _, l := range strings.Split(raw, "\n") {
		if strings.Contains(l, "(error") {
			return l
		}
	}
	return ""
}

func classify(ob *Obligation, ans string) {
	if ob.Kind == "cover" {
		switch ans {
		case "sat":
			ob.Status = "discharged"
		case "unsat":
			ob.Status = "failed" // vacuous
		default:
			ob.Status = "discharged" // not refuted; noted
			ob.Model = "cover: " + ans
		}
		return
	}
	switch ans {
	case "unsat":
		ob.Status = "discharged"
	case "sat":
		ob.Status = "failed"
	default:
		ob.Status = "unknown"
	}
}

// retry races all solvers on the standalone script of one obligation; the first definite answer wins.
func retry(r *FnResult, ob *Obligation, o solveOpts) {
	script := r.Enc.single(ob)
	type res struct {
		s        *solver
		ans, raw string
		secs     float64
	}
	ch := make(chan res, len(solvers))
	for i := range solvers {
		s := &solvers[i]
		go func() {
			ans, raw, secs := runSolver(s, script+"(get-model)\n", o.timeoutMs, 1)
			a := "unknown"
			if len(ans) > 0 {
				a = ans[0]
			}
			if strings.Contains(raw, "(error") && len(ans) == 0 {
				a = "error"
			}
			ch <- res{s, a, raw, secs}
		}()
	}
	decided := false
	for range solvers {
		x := <-ch
		if decided {
			continue
		}
		if x.ans == "unsat" || (x.ans == "sat" && ob.Kind != "cover") || (x.ans == "sat" && ob.Kind == "cover") {
			classify(ob, x.ans)
			ob.Solver = x.s.name
			ob.Secs = x.secs
			if ob.Stage == "" {
				ob.Stage = "retry"
			}
			if x.ans == "sat" && ob.Kind != "cover" {
				ob.Model = trimModel(x.raw)
			}
			decided = true
		}
	}
	if o.keepDir != "" && ob.Status != "discharged" {
		_ = os.MkdirAll(o.keepDir, 0o755)
		_ = os.WriteFile(filepath.Join(o.keepDir, shortName(ob.Name)+".smt2"), []byte(script), 0o644)
	}
}

func trimModel(raw string) string {
	if len(raw) > 20000 {
		raw = raw[:20000] + "\n...(truncated)"
	}
	return raw
}
