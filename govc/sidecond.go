package main

import (
	"fmt"
	"go/types"
	"sort"
	"strings"

	"golang.org/x/tools/go/ssa"
	"golang.org/x/tools/go/ssa/ssautil"
)

// Syntactic side conditions (declared with immutable[...] / soledecl[...] in a contract file). They are not proof
// obligations for a solver: the whole module's SSA is scanned on every check and each condition is reported like an
// obligation of kind "sidecond" - discharged, or failed with the offending instruction.
func sideCondsFor(db *ContractDB, prop string) []*LemmaResult {
	var out []*LemmaResult
	for _, sc := range db.sideConds {
		tagged := false
		for _, t := range sc.Tags {
			if t == prop {
				tagged = true
			}
		}
		if !tagged {
			continue
		}
		name := "sidecond:" + sc.Kind + " " + sc.Arg
		ob := &Obligation{Name: relPkg(sc.Pkg.Path()) + "#" + name, Fn: relPkg(sc.Pkg.Path()), Kind: "sidecond", Anchor: sc.Arg, Tags: sc.Tags, Pos: sc.Src, Goal: sc.Kind + " " + sc.Arg}
		var bad []string
		switch sc.Kind {
		case "immutable":
			bad = scanImmutable(db.w, sc)
		case "soledecl":
			bad = scanSoleDecl(db.w, sc)
		}
		if len(bad) == 0 {
			ob.Status = "discharged"
		} else {
			ob.Status = "failed"
			ob.Model = strings.Join(bad, "\n")
		}
		ob.Solver = "ssa-scan"
		out = append(out, &LemmaResult{Name: name, Props: sc.Tags, Script: "; syntactic side condition " + sc.Kind + " " + sc.Arg + " (" + sc.Src + ")\n; " + strings.Join(bad, "\n; "), Ob: ob, Decided: true})
	}
	return out
}

func relPkg(path string) string {
	return strings.TrimPrefix(strings.TrimPrefix(path, modPath), "/")
}

func moduleFunctions(w *World) []*ssa.Function {
	var fns []*ssa.Function
	for fn := range ssautil.AllFunctions(w.Prog) {
		if fn.Pkg == nil || fn.Pkg.Pkg == nil || !strings.HasPrefix(fn.Pkg.Pkg.Path(), modPath) || fn.Blocks == nil {
			continue
		}
		fns = append(fns, fn)
	}
	sort.Slice(fns, func(i, j int) bool { return fns[i].String() < fns[j].String() })
	return fns
}

// scanImmutable: T.f is written only while the T it belongs to is being built (the object is an allocation of the same
// function); its address is used for nothing but reads, sub-field addresses and such initialising stores.
func scanImmutable(w *World, sc *SideCond) []string {
	parts := strings.Split(sc.Arg, ".")
	if len(parts) != 2 {
		return []string{"bad declaration " + sc.Arg}
	}
	obj := sc.Pkg.Scope().Lookup(parts[0])
	if obj == nil {
		return []string{"unknown type " + parts[0]}
	}
	T := obj.Type()
	var bad []string
	isT := func(t types.Type) bool {
		p, ok := t.Underlying().(*types.Pointer)
		return ok && types.Identical(p.Elem(), T)
	}
	fresh := func(v ssa.Value) bool {
		_, ok := v.(*ssa.Alloc)
		return ok
	}
	var checkAddr func(fn *ssa.Function, addr ssa.Value, base ssa.Value)
	checkAddr = func(fn *ssa.Function, addr ssa.Value, base ssa.Value) {
		refs := addr.Referrers()
		if refs == nil {
			return
		}
		for _, u := range *refs {
			switch x := u.(type) {
			case *ssa.UnOp: // load
			case *ssa.DebugRef:
			case *ssa.FieldAddr:
				checkAddr(fn, x, base)
			case *ssa.IndexAddr:
				checkAddr(fn, x, base)
			case *ssa.Store:
				if x.Addr == addr && fresh(base) {
					continue // initialisation of an object this function allocates
				}
				bad = append(bad, fmt.Sprintf("%s: write to %s in %s", w.Prog.Fset.Position(x.Pos()), sc.Arg, fn))
			default:
				bad = append(bad, fmt.Sprintf("%s: address of %s escapes (%T) in %s", w.Prog.Fset.Position(u.Pos()), sc.Arg, u, fn))
			}
		}
	}
	for _, fn := range moduleFunctions(w) {
		for _, b := range fn.Blocks {
			for _, in := range b.Instrs {
				switch x := in.(type) {
				case *ssa.FieldAddr:
					if !isT(x.X.Type()) {
						continue
					}
					st := T.Underlying().(*types.Struct)
					if st.Field(x.Field).Name() != parts[1] {
						continue
					}
					checkAddr(fn, x, x.X)
				case *ssa.Store:
					// a whole T overwritten through a pointer that is not a fresh allocation
					if isT(x.Addr.Type()) && !fresh(x.Addr) {
						bad = append(bad, fmt.Sprintf("%s: whole %s overwritten in %s", w.Prog.Fset.Position(x.Pos()), parts[0], fn))
					}
				}
			}
		}
	}
	sort.Strings(bad)
	return bad
}

// scanSoleDecl: "M T" - no named type of the module other than T declares a method M (so every type that has an M got it
// from an embedded T, by Go's promotion rules).
func scanSoleDecl(w *World, sc *SideCond) []string {
	f := strings.Fields(sc.Arg)
	if len(f) != 2 {
		return []string{"bad declaration " + sc.Arg}
	}
	obj := sc.Pkg.Scope().Lookup(f[1])
	if obj == nil {
		return []string{"unknown type " + f[1]}
	}
	var bad []string
	for path, p := range w.ByPath {
		if !strings.HasPrefix(path, modPath) || p.Types == nil {
			continue
		}
		scope := p.Types.Scope()
		for _, n := range scope.Names() {
			tn, ok := scope.Lookup(n).(*types.TypeName)
			if !ok || tn.IsAlias() {
				continue
			}
			named, ok := tn.Type().(*types.Named)
			if !ok || types.Identical(named, obj.Type()) {
				continue
			}
			if _, isI := named.Underlying().(*types.Interface); isI {
				continue
			}
			for i := 0; i < named.NumMethods(); i++ {
				if named.Method(i).Name() == f[0] {
					bad = append(bad, fmt.Sprintf("%s declares its own %s", types.TypeString(named, nil), f[0]))
				}
			}
		}
	}
	sort.Strings(bad)
	return bad
}
