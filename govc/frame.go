package main

import (
	"fmt"
	"go/ast"
	"go/constant"
	"go/token"
	"go/types"
	"os"
	"regexp"
	"sort"
	"strconv"
	"strings"

	"golang.org/x/tools/go/ssa"
)

// ------------------------------------------------------------------ addresses

type Addr interface{ isAddr() }

type fieldAddr struct { // H[base]
	heap, sort, base string
	guardS           string // struct key (for guarded_by lookup)
	fname            string
	ftype            types.Type
}
type elemAddr struct{ heap, sort, arr, idx string } // E[arr][idx]
type primAddr struct{ heap, sort, ref string }      // P[ref]
type subElemAddr struct {                           // element idx of an array-valued location
	parent    Addr
	idx, sort string
}

func (fieldAddr) isAddr()   {}
func (elemAddr) isAddr()    {}
func (primAddr) isAddr()    {}
func (subElemAddr) isAddr() {}

// ------------------------------------------------------------------ frame

type retEdge struct {
	cond  string
	st    *State
	vals  []T
	pos   string
	block *ssa.BasicBlock
}

type deferRec struct {
	instr *ssa.Defer
	args  []T
	recv  T
}

type loopInfo struct {
	header *ssa.BasicBlock
	body   map[*ssa.BasicBlock]bool
	ord    int // ordinal among loop headers in block-index order (1-based)
}

type frame struct {
	e       *Enc
	fn      *ssa.Function
	vals    map[ssa.Value]T
	addrs   map[ssa.Value]Addr
	tuples  map[ssa.Value][]T
	depth   int
	stack   []*ssa.Function // inline stack
	ct      *Contract       // contract of fn (root or inlined), may be nil
	defers  []deferRec
	rets    []retEdge
	loops   map[*ssa.BasicBlock]*loopInfo
	rpo     []*ssa.BasicBlock
	nopanic bool
	tags    []string
	root    *frame
	// labelled states (root only)
	lockSt      *State
	entrySt     *State
	assertHit   map[*SpecExpr]bool
	wOverride   string
	curHeader   *ssa.BasicBlock
	inFacts     int
	freshOnly   map[string]bool
	frameOK     map[string]bool
	explicitW   map[string]bool
	notAlloc    map[string]bool
	badIdx      map[string]bool
	idxTerms    map[string][]string
	nonFreshIdx map[string][]string
	npBump      bool
	pinv        map[*ssa.BasicBlock]*pendInv
}

func (f *frame) W() *World { return f.e.w }

func (f *frame) posOf(i ssa.Instruction) token.Pos {
	if i.Pos().IsValid() {
		return i.Pos()
	}
	// nearest earlier instruction with a position in the same block
	b := i.Block()
	var last token.Pos
	for _, j := range b.Instrs {
		if j.Pos().IsValid() {
			last = j.Pos()
		}
		if j == i {
			break
		}
	}
	if !last.IsValid() {
		for _, j := range b.Instrs {
			if j.Pos().IsValid() {
				return j.Pos()
			}
		}
	}
	return last
}

func (f *frame) anchor(i ssa.Instruction) (string, string) {
	p := f.posOf(i)
	line := f.W().srcLine(p)
	if len(line) > 90 {
		line = line[:90]
	}
	pos := ""
	if p.IsValid() {
		pp := f.W().Fset.Position(p)
		pos = fmt.Sprintf("%s:%d", strings.TrimPrefix(pp.Filename, repoDir()+"/"), pp.Line)
	}
	prefix := ""
	if f.root != f {
		prefix = relName(f.fn) + "|"
	}
	return prefix + line, pos
}

// ob records an automatic (safety) obligation if safety checking is on.
func (f *frame) safety(i ssa.Instruction, kind string, st *State, prop string) {
	tags := f.root.safetyTags(kind)
	if tags == nil {
		return
	}
	if f.recoveredAt(i) && !chanKinds[kind] {
		// a panic here is caught by a deferred recover() of this function or of a caller on the (inlined) stack: the
		// function still returns normally, which is all a no-panic clause asks for
		f.e.note("panics recovered by a deferred recover() in " + relName(f.root.fn) + " are not obligations")
		return
	}
	a, pos := f.anchor(i)
	f.e.addOb(kind, a, tags, pos, st.cond, prop)
}

var chanKinds = map[string]bool{"send-nil-chan": true, "send-closed-chan": true, "close-nil-chan": true,
	"close-closed-chan": true, "recv-nil-chan": true}

// safetyTags returns the property tags under which an automatic obligation of this kind
// is generated for the root function, or nil if the kind is not requested.
func (f *frame) safetyTags(kind string) []string {
	if f.nopanic {
		return f.tags
	}
	if f.ct != nil && f.ct.ChanSafe && chanKinds[kind] {
		return f.ct.ChanSafeTags
	}
	return nil
}

// ------------------------------------------------------------------ type facts

func pow2(n uint) string {
	s := "1"
	// produce decimal of 2^n via big arithmetic on strings is overkill: use constant package
	v := constant.Shift(constant.MakeInt64(1), token.SHL, n)
	s = v.ExactString()
	return s
}

// facts returns well-formedness facts of a value of Go type t (ranges, slice shape, allocation bound).
// factsFrom is facts for a value loaded from heap `heap` at object `idx`: if that heap has not been
// written since the root function was entered and the object existed at entry, the value was already
// stored at entry, hence it was allocated before entry too.
func (f *frame) factsFrom(x string, t types.Type, st *State, heap, idx string) string {
	base := f.facts(x, t, st)
	root := f.root
	if root == nil || root.entrySt == nil || heap == "" || idx == "" || f.e.ver(st, heap) != f.e.ver(root.entrySt, heap) {
		return base
	}
	w0 := heapName("W", f.e.ver(root.entrySt, "W"))
	f.e.declConst(w0, "Int")
	f.e.declFun("owner", []string{"Int"}, "Int")
	f.wOverride = w0
	old := f.facts(x, t, st)
	f.wOverride = ""
	return and(base, implies("(<= (owner "+idx+") "+w0+")", old))
}

func (f *frame) wTerm(st *State) string {
	if f.wOverride != "" {
		f.e.declConst(f.wOverride, "Int")
		return f.wOverride
	}
	return f.e.H(st, "W", "Int")
}

func (f *frame) facts(x string, t types.Type, st *State) string {
	e := f.e
	switch u := t.Underlying().(type) {
	case *types.Basic:
		switch u.Kind() {
		case types.Uint8:
			return and("(<= 0 "+x+")", "(< "+x+" 256)")
		case types.Uint16:
			return and("(<= 0 "+x+")", "(< "+x+" 65536)")
		case types.Uint32:
			return and("(<= 0 "+x+")", "(< "+x+" 4294967296)")
		case types.Uint64, types.Uint, types.Uintptr:
			return and("(<= 0 "+x+")", "(< "+x+" 18446744073709551616)")
		case types.Int8:
			return and("(<= (- 128) "+x+")", "(< "+x+" 128)")
		case types.Int16:
			return and("(<= (- 32768) "+x+")", "(< "+x+" 32768)")
		case types.Int32:
			return and("(<= (- 2147483648) "+x+")", "(< "+x+" 2147483648)")
		case types.Int64, types.Int:
			return and("(<= (- 9223372036854775808) "+x+")", "(< "+x+" 9223372036854775808)")
		case types.String:
			return "(>= (strlen " + x + ") 0)"
		}
		return "true"
	case *types.Pointer, *types.Map, *types.Chan:
		w := f.wTerm(st)
		e.declFun("owner", []string{"Int"}, "Int")
		base := and("(<= 0 (owner "+x+"))", "(<= (owner "+x+") "+w+")", "(= (owner 0) 0)")
		if pt, ok := u.(*types.Pointer); ok && len(e.db.typeinv) > 0 && f.inFacts < 3 {
			if _, isS := pt.Elem().Underlying().(*types.Struct); isS {
				if inv := e.db.typeinv[e.structKey(pt.Elem())]; inv != nil {
					f.inFacts++
					env := &specEnv{f: f, vars: map[string]T{"self": {x, "Int", t}}, cur: st, old: st, pkg: e.db.typeinvP[e.structKey(pt.Elem())], nbound: 1}
					if it, err := env.evalBool(inv); err == nil {
						base = and(base, implies("(not (= "+x+" 0))", it))
					}
					f.inFacts--
				}
			}
		}
		return base
	case *types.Signature:
		return "true"
	case *types.Interface:
		w := f.wTerm(st)
		e.declFun("owner", []string{"Int"}, "Int")
		base := and("(<= 0 (ityp "+x+"))", "(=> (= (ityp "+x+") 0) (= (ival "+x+") 0))", "(<= (owner (ival "+x+")) "+w+")")
		if isModuleType(t) {
			// A-NOTYPEDNIL: values of the module's own interface types never wrap a nil pointer
			e.declFun("ptrtype", []string{"Int"}, "Bool")
			base = and(base, "(=> (and (not (= (ityp "+x+") 0)) (ptrtype (ityp "+x+"))) (not (= (ival "+x+") 0)))")
		}
		if _, named := t.(*types.Named); named && t.Underlying().(*types.Interface).NumMethods() > 0 && !strings.Contains(x, "!q") {
			// the type system guarantees: a value of interface type I is nil or its dynamic type implements I
			base = and(base, "(or (= (ityp "+x+") 0) "+f.hasType(x, t)+")")
		}
		return base
	case *types.Slice:
		w := f.wTerm(st)
		e.declFun("owner", []string{"Int"}, "Int")
		return and("(<= 0 (owner (sarr "+x+")))", "(<= (owner (sarr "+x+")) "+w+")", "(= (owner 0) 0)", "(<= 0 (soff "+x+"))", "(<= 0 (slen "+x+"))",
			"(<= (slen "+x+") (scap "+x+"))", "(=> (= (sarr "+x+") 0) (= (scap "+x+") 0))", "(< (scap "+x+") 4611686018427387904)")
	case *types.Struct:
		k := e.sortOf(t)
		var fs []string
		for i := 0; i < u.NumFields(); i++ {
			fs = append(fs, f.facts(fmt.Sprintf("(%s_f%d %s)", k, i, x), u.Field(i).Type(), st))
		}
		return and(fs...)
	}
	return "true"
}

func (f *frame) freshVal(prefix string, t types.Type, st *State) T {
	s := f.e.sortOf(t)
	n := f.e.fresh(prefix, s)
	f.e.assume(implies(st.cond, f.facts(n, t, st)))
	return T{n, s, t}
}

// ------------------------------------------------------------------ values

func (f *frame) val(v ssa.Value, st *State) T {
	if t, ok := f.vals[v]; ok {
		return t
	}
	e := f.e
	switch c := v.(type) {
	case *ssa.Const:
		t := c.Type()
		srt := e.sortOf(t)
		if c.Value == nil {
			return T{e.zero(t), srt, t}
		}
		switch c.Value.Kind() {
		case constant.Bool:
			if constant.BoolVal(c.Value) {
				return T{"true", "Bool", t}
			}
			return T{"false", "Bool", t}
		case constant.String:
			return T{e.strID(constant.StringVal(c.Value)), "Int", t}
		case constant.Int:
			s := c.Value.ExactString()
			if strings.HasPrefix(s, "-") {
				s = "(- " + s[1:] + ")"
			}
			if srt == "Real" {
				s = s + ".0"
			}
			return T{s, srt, t}
		case constant.Float:
			fl, _ := constant.Float64Val(c.Value)
			return T{fmt.Sprintf("%f", fl), "Real", t}
		}
		return T{e.zero(t), srt, t}
	case *ssa.Function:
		id := e.funcID(c.String())
		return T{fmt.Sprintf("%d", id), "Int", c.Type()}
	case *ssa.Global:
		// address of a global: a fixed reference
		n := "glob_" + sanitize(c.String())
		e.declConst(n, "Int")
		e.addDecl("globfact@"+n, "(assert (< "+n+" 0))")
		el := c.Type().(*types.Pointer).Elem()
		if _, ok := el.Underlying().(*types.Struct); !ok {
			f.addrs[v] = primAddr{"P_" + sanitize(e.sortOf(el)), "(Array Int " + e.sortOf(el) + ")", n}
		}
		return T{n, "Int", c.Type()}
	case *ssa.Builtin:
		return T{"0", "Int", c.Type()}
	}
	// value defined by an instruction we have not reached (should not happen in RPO) or unsupported
	t := f.freshVal("undef", v.Type(), st)
	e.note("undefined value " + v.Name() + " in " + relName(f.fn))
	f.vals[v] = t
	return t
}

func (e *Enc) funcID(name string) int {
	id, ok := e.funcIDs[name]
	if !ok {
		id = 1 + len(e.funcIDs)
		e.funcIDs[name] = id
	}
	return id
}

// ------------------------------------------------------------------ memory

func (f *frame) heapOfField(S types.Type, i int) (heap, sort string, ft types.Type, fname string) {
	st := S.Underlying().(*types.Struct)
	fld := st.Field(i)
	key := f.e.structKey(S)
	return "H_" + key + "_" + fld.Name(), "(Array Int " + f.e.sortOf(fld.Type()) + ")", fld.Type(), fld.Name()
}

func (f *frame) subRef(S types.Type, i int, base string) string {
	key := f.e.structKey(S)
	st := S.Underlying().(*types.Struct)
	fn := "sub_" + key + "_" + st.Field(i).Name()
	e := f.e
	e.declFun(fn, []string{"Int"}, "Int")
	e.declFun(fn+"_inv", []string{"Int"}, "Int")
	e.declFun("owner", []string{"Int"}, "Int")
	e.declFun("subtag", []string{"Int"}, "Int")
	t := "(" + fn + " " + base + ")"
	if strings.Contains(base, "!q") || strings.HasPrefix(base, "fr") {
		return t // under a quantifier: no instantiated facts
	}
	// a sub-object belongs to its parent: same owner, distinct from nil and from sibling sub-objects
	e.addDecl("subfact@"+t, fmt.Sprintf("(assert (and (= (owner %s) (owner %s)) (not (= %s 0)) (= (%s_inv %s) %s) (= (subtag %s) %d)))",
		t, base, t, fn, t, base, t, e.funcID("subtag:"+fn)))
	return t
}

func (f *frame) load(a Addr, st *State) string {
	e := f.e
	switch a := a.(type) {
	case fieldAddr:
		return "(select " + e.H(st, a.heap, a.sort) + " " + a.base + ")"
	case elemAddr:
		return "(select (select " + e.H(st, a.heap, a.sort) + " " + a.arr + ") " + a.idx + ")"
	case primAddr:
		return "(select " + e.H(st, a.heap, a.sort) + " " + a.ref + ")"
	case subElemAddr:
		return "(select " + f.load(a.parent, st) + " " + a.idx + ")"
	}
	panic("load: bad addr")
}

func (f *frame) storeAt(a Addr, v string, st *State) {
	e := f.e
	switch a := a.(type) {
	case fieldAddr:
		e.setHeap(st, a.heap, a.sort, "(store "+e.H(st, a.heap, a.sort)+" "+a.base+" "+v+")")
	case elemAddr:
		h := e.H(st, a.heap, a.sort)
		e.setHeap(st, a.heap, a.sort, "(store "+h+" "+a.arr+" (store (select "+h+" "+a.arr+") "+a.idx+" "+v+"))")
	case primAddr:
		e.setHeap(st, a.heap, a.sort, "(store "+e.H(st, a.heap, a.sort)+" "+a.ref+" "+v+")")
	case subElemAddr:
		f.storeAt(a.parent, "(store "+f.load(a.parent, st)+" "+a.idx+" "+v+")", st)
	default:
		panic("store: bad addr")
	}
}

// loadStruct reads all fields of the struct at ref into a datatype value.
func (f *frame) loadStruct(ref string, S types.Type, st *State) string {
	e := f.e
	us := S.Underlying().(*types.Struct)
	k := e.sortOf(S)
	var fs []string
	for i := 0; i < us.NumFields(); i++ {
		ft := us.Field(i).Type()
		if _, ok := ft.Underlying().(*types.Struct); ok {
			fs = append(fs, f.loadStruct(f.subRef(S, i, ref), ft, st))
			continue
		}
		h, srt, _, _ := f.heapOfField(S, i)
		fs = append(fs, "(select "+e.H(st, h, srt)+" "+ref+")")
	}
	if len(fs) == 0 {
		fs = append(fs, "0")
	}
	return "(mk_" + k + " " + strings.Join(fs, " ") + ")"
}

func (f *frame) storeStruct(ref string, S types.Type, v string, st *State) {
	e := f.e
	us := S.Underlying().(*types.Struct)
	k := e.sortOf(S)
	for i := 0; i < us.NumFields(); i++ {
		ft := us.Field(i).Type()
		fv := fmt.Sprintf("(%s_f%d %s)", k, i, v)
		if _, ok := ft.Underlying().(*types.Struct); ok {
			f.storeStruct(f.subRef(S, i, ref), ft, fv, st)
			continue
		}
		h, srt, _, _ := f.heapOfField(S, i)
		e.setHeap(st, h, srt, "(store "+e.H(st, h, srt)+" "+ref+" "+fv+")")
	}
}

// zeroStruct initialises a freshly allocated struct at ref.
func (f *frame) zeroStruct(ref string, S types.Type, st *State) {
	e := f.e
	us := S.Underlying().(*types.Struct)
	for i := 0; i < us.NumFields(); i++ {
		ft := us.Field(i).Type()
		if _, ok := ft.Underlying().(*types.Struct); ok {
			sub := f.subRef(S, i, ref)
			if isMutex(ft) {
				// exclusive access to a freshly allocated, unshared object
				e.setHeap(st, "EXCL", "(Array Int Bool)", "(store "+e.H(st, "EXCL", "(Array Int Bool)")+" "+sub+" true)")
				e.setHeap(st, "HELD", "(Array Int Bool)", "(store "+e.H(st, "HELD", "(Array Int Bool)")+" "+sub+" false)")
				continue
			}
			f.zeroStruct(sub, ft, st)
			continue
		}
		h, srt, _, _ := f.heapOfField(S, i)
		e.setHeap(st, h, srt, "(store "+e.H(st, h, srt)+" "+ref+" "+e.zero(ft)+")")
	}
}

func isMutex(t types.Type) bool {
	if n, ok := t.(*types.Named); ok && n.Obj().Pkg() != nil && n.Obj().Pkg().Path() == "sync" {
		return n.Obj().Name() == "Mutex" || n.Obj().Name() == "RWMutex"
	}
	return false
}

func (f *frame) alloc(st *State) string {
	e := f.e
	w := e.H(st, "W", "Int")
	a := e.fresh("a", "Int")
	e.declFun("owner", []string{"Int"}, "Int")
	e.assume("(and (= " + a + " (+ " + w + " 1)) (= (owner " + a + ") " + a + "))")
	e.setHeap(st, "W", "Int", a)
	return a
}

// addrOf returns the address descriptor of pointer value v (type *T, T not a struct).
func (f *frame) addrOf(v ssa.Value, st *State) Addr {
	if a, ok := f.addrs[v]; ok {
		return a
	}
	t := f.val(v, st)
	el := v.Type().Underlying().(*types.Pointer).Elem()
	srt := f.e.sortOf(el)
	if at, ok := el.Underlying().(*types.Array); ok {
		// a whole array behind a pointer lives where IndexAddr addresses its elements: E[ref]
		if h, hs := f.elemHeap(at.Elem()); h != "" && hs == "(Array Int "+srt+")" {
			return primAddr{h, hs, t.S}
		}
	}
	return primAddr{"P_" + sanitize(srt), "(Array Int " + srt + ")", t.S}
}

func (f *frame) elemHeap(el types.Type) (string, string) {
	srt := f.e.sortOf(el)
	if _, ok := el.Underlying().(*types.Struct); ok {
		// struct elements live in field heaps keyed by an element reference
		return "", ""
	}
	return "E_" + sanitize(srt), "(Array Int (Array Int " + srt + "))"
}

func (f *frame) elemRef(el types.Type, arr, idx string) string {
	e := f.e
	e.declFun("elemref", []string{"Int", "Int"}, "Int")
	e.declFun("owner", []string{"Int"}, "Int")
	t := "(elemref " + arr + " " + idx + ")"
	if !strings.Contains(t, "!q") {
		e.addDecl("elemfact@"+t, fmt.Sprintf("(assert (and (= (owner %s) (owner %s)) (not (= %s 0))))", t, arr, t))
	}
	return t
}

// readLoc loads a value of type t from pointer value p.
func (f *frame) derefLoad(p ssa.Value, st *State) T {
	el := p.Type().Underlying().(*types.Pointer).Elem()
	srt := f.e.sortOf(el)
	if _, ok := el.Underlying().(*types.Struct); ok {
		if a, ok := f.addrs[p]; ok {
			// struct-valued location addressed by descriptor (element of slice of structs handled by elemRef)
			_ = a
		}
		ref := f.val(p, st)
		return T{f.loadStruct(ref.S, el, st), srt, el}
	}
	a := f.addrOf(p, st)
	f.guardCheck(a, p, st, "guarded-read")
	v := f.load(a, st)
	return T{v, srt, el}
}

func (f *frame) guardCheck(a Addr, at ssa.Value, st *State, kind string) {
	fa, ok := a.(fieldAddr)
	if !ok {
		return
	}
	g := f.e.db.guarded[fa.guardS]
	if g == nil {
		return
	}
	mf, ok := g[fa.fname]
	if !ok {
		return
	}
	m := "(sub_" + fa.guardS + "_" + mf + " " + fa.base + ")"
	f.e.declFun("sub_"+fa.guardS+"_"+mf, []string{"Int"}, "Int")
	excl := "(select " + f.e.H(st, "EXCL", "(Array Int Bool)") + " " + m + ")"
	if in, ok := at.(ssa.Instruction); ok {
		a, pos := f.anchor(in)
		f.e.addOb(kind, fa.fname+"|"+a, f.e.db.guardTags[fa.guardS], pos, st.cond, excl)
	}
}

// protect registers a reference loaded from a field owned by the root's package.
func (f *frame) protect(t T) {
	e := f.e
	if t.Go == nil || e.protSet[t.S] || strings.Contains(t.S, "!q") {
		return
	}
	switch t.Go.Underlying().(type) {
	case *types.Map, *types.Slice, *types.Chan, *types.Pointer:
		e.protSet[t.S] = true
		e.prot = append(e.prot, t)
	}
}

func (e *Enc) isPriv(S types.Type) bool {
	if e.privPkg == "" {
		return false
	}
	return strings.HasPrefix(e.structKey(S), "S_"+e.privPkg+"_")
}

// ------------------------------------------------------------------ maps, chans

func (f *frame) mapHeaps(mt *types.Map) (dom, domSort, val, valSort string) {
	k := typeKey(mt)
	ks, vs := f.e.sortOf(mt.Key()), f.e.sortOf(mt.Elem())
	return "MD_" + k, "(Array Int (Array " + ks + " Bool))", "MV_" + k, "(Array Int (Array " + ks + " " + vs + "))"
}

func (f *frame) mapLookup(m T, key string, st *State) (val, ok string) {
	mt := m.Go.Underlying().(*types.Map)
	d, ds, v, vs := f.mapHeaps(mt)
	e := f.e
	ok = "(and (not (= " + m.S + " 0)) (select (select " + e.H(st, d, ds) + " " + m.S + ") " + key + "))"
	val = "(ite " + ok + " (select (select " + e.H(st, v, vs) + " " + m.S + ") " + key + ") " + e.zero(mt.Elem()) + ")"
	return
}

func (f *frame) mapStore(m T, key, v string, st *State) {
	mt := m.Go.Underlying().(*types.Map)
	d, ds, vh, vs := f.mapHeaps(mt)
	e := f.e
	dh := e.H(st, d, ds)
	e.setHeap(st, d, ds, "(store "+dh+" "+m.S+" (store (select "+dh+" "+m.S+") "+key+" true))")
	vv := e.H(st, vh, vs)
	e.setHeap(st, vh, vs, "(store "+vv+" "+m.S+" (store (select "+vv+" "+m.S+") "+key+" "+v+"))")
}

const (
	chClosedSort = "(Array Int Bool)"
	chLenSort    = "(Array Int Int)"
)

func (f *frame) chClosed(ch string, st *State) string {
	return "(select " + f.e.H(st, "CH_closed", chClosedSort) + " " + ch + ")"
}

// ------------------------------------------------------------------ running blocks

func (f *frame) computeLoops() {
	f.loops = map[*ssa.BasicBlock]*loopInfo{}
	// reverse post-order
	seen := map[*ssa.BasicBlock]bool{}
	var post []*ssa.BasicBlock
	var dfs func(b *ssa.BasicBlock)
	dfs = func(b *ssa.BasicBlock) {
		seen[b] = true
		for _, s := range b.Succs {
			if !seen[s] {
				dfs(s)
			}
		}
		post = append(post, b)
	}
	if len(f.fn.Blocks) == 0 {
		return
	}
	dfs(f.fn.Blocks[0])
	for i := len(post) - 1; i >= 0; i-- {
		f.rpo = append(f.rpo, post[i])
	}
	for _, b := range f.rpo {
		for _, s := range b.Succs {
			if s.Dominates(b) { // back edge b -> s
				li := f.loops[s]
				if li == nil {
					li = &loopInfo{header: s, body: map[*ssa.BasicBlock]bool{s: true}}
					f.loops[s] = li
				}
				// natural loop: all blocks that reach b without passing s
				var work []*ssa.BasicBlock
				if !li.body[b] {
					li.body[b] = true
					work = append(work, b)
				}
				for len(work) > 0 {
					x := work[len(work)-1]
					work = work[:len(work)-1]
					for _, p := range x.Preds {
						if !li.body[p] && seen[p] {
							li.body[p] = true
							work = append(work, p)
						}
					}
				}
			}
		}
	}
	var hs []*ssa.BasicBlock
	for h := range f.loops {
		hs = append(hs, h)
	}
	sort.Slice(hs, func(i, j int) bool { return hs[i].Index < hs[j].Index })
	for i, h := range hs {
		f.loops[h].ord = i + 1
	}
}

type runCtx struct {
	edges  map[*ssa.BasicBlock][]edgeFrom
	within map[*ssa.BasicBlock]bool // nil = whole function
	header *ssa.BasicBlock          // for probe runs: the loop being probed
	back   []edgeFrom               // back edges to header collected in probe
}

type edgeFrom struct {
	from *ssa.BasicBlock
	cond string
	st   *State
}

// run executes the function body symbolically from entry state st.
func (f *frame) run(st *State) {
	f.computeLoops()
	if len(f.rpo) == 0 {
		return
	}
	rc := &runCtx{edges: map[*ssa.BasicBlock][]edgeFrom{}}
	rc.edges[f.rpo[0]] = []edgeFrom{{nil, st.cond, st}}
	f.runBlocks(f.rpo, rc)
}

func (f *frame) runBlocks(blocks []*ssa.BasicBlock, rc *runCtx) {
	e := f.e
	for _, b := range blocks {
		if rc.within != nil && !rc.within[b] {
			continue
		}
		in := rc.edges[b]
		li := f.loops[b]
		if len(in) == 0 {
			continue // unreachable
		}
		var eds []edge
		for _, x := range in {
			eds = append(eds, edge{x.cond, x.st})
		}
		st := e.merge(eds)
		// phis: defined per incoming forward edge
		phiVal := func(phi *ssa.Phi, from *ssa.BasicBlock, s *State) T {
			for i, p := range b.Preds {
				if p == from {
					return f.val(phi.Edges[i], s)
				}
			}
			return f.val(phi.Edges[0], s)
		}
		var phis []*ssa.Phi
		for _, ins := range b.Instrs {
			if p, ok := ins.(*ssa.Phi); ok {
				phis = append(phis, p)
			} else {
				break
			}
		}
		if li == nil || (rc.header == b) && false {
			for _, p := range phis {
				if len(in) == 1 {
					f.vals[p] = phiVal(p, in[0].from, in[0].st)
					if a, ok := f.addrs[p.Edges[f.predIndex(b, in[0].from)]]; ok {
						f.addrs[p] = a
					}
					continue
				}
				srt := e.sortOf(p.Type())
				n := e.fresh("phi", srt)
				for _, x := range in {
					e.assume(implies(x.cond, eq(n, phiVal(p, x.from, x.st).S)))
				}
				f.vals[p] = T{n, srt, p.Type()}
				delete(f.addrs, p)
			}
		} else {
			// loop header: invariants on entry, probe for the modified set, havoc, assume invariants
			f.enterLoop(b, li, phis, in, st, rc, phiVal)
		}
		f.execBlock(b, st, rc)
	}
}

func (f *frame) predIndex(b, from *ssa.BasicBlock) int {
	for i, p := range b.Preds {
		if p == from {
			return i
		}
	}
	return 0
}

func (f *frame) loopBlocks(li *loopInfo) []*ssa.BasicBlock {
	var bs []*ssa.BasicBlock
	for _, b := range f.rpo {
		if li.body[b] {
			bs = append(bs, b)
		}
	}
	return bs
}

// enterLoop cuts the loop at its header b.
func (f *frame) enterLoop(b *ssa.BasicBlock, li *loopInfo, phis []*ssa.Phi, in []edgeFrom, st *State,
	rc *runCtx, phiVal func(*ssa.Phi, *ssa.BasicBlock, *State) T) {
	e := f.e
	f.curHeader = b
	// 1. entry values of phis (merged over forward edges)
	entry := map[*ssa.Phi]T{}
	for _, p := range phis {
		if len(in) == 1 {
			entry[p] = phiVal(p, in[0].from, in[0].st)
			continue
		}
		srt := e.sortOf(p.Type())
		n := e.fresh("phi_in", srt)
		for _, x := range in {
			e.assume(implies(x.cond, eq(n, phiVal(p, x.from, x.st).S)))
		}
		entry[p] = T{n, srt, p.Type()}
	}
	invs := f.loopInvariants(b, li, phis)
	// 2. invariants hold on entry
	for _, p := range phis {
		f.vals[p] = entry[p]
	}
	for _, iv := range invs {
		if iv.auto {
			continue // auto invariants hold on entry by construction (checked below anyway)
		}
		t := f.evalLoopInv(iv, st, st)
		e.addOb("inv-entry", fmt.Sprintf("loop%d:%s", li.ord, iv.text), f.invTags(iv.tags), f.fnPos(), st.cond, t)
	}
	// 3. probe: which heaps does one iteration modify?
	changed := f.probeLoop(b, li, phis, st)
	f.frameOK = f.inferFrames(b, li, phis, st, changed, invs, entry)
	// 4. havoc
	for _, p := range phis {
		f.vals[p] = f.freshVal("loopphi", p.Type(), st)
		delete(f.addrs, p)
	}
	f.havocChanged(st, changed)
	// 5. assume invariants
	for _, iv := range invs {
		var t string
		if iv.auto {
			t = iv.autoTerm(f, entry)
		} else {
			t = f.evalLoopInv(iv, st, st)
		}
		e.assume(implies(st.cond, t))
	}
	// remember invariants for the back edges
	f.pendingInv(b, invs, entry)
}

// havocChanged havocs the heaps in `changed` (as computed by a probe of a loop body or a closure),
// keeping what the probe's write log shows to be untouched: objects allocated before the construct
// when a heap is only written at objects the construct allocates itself or at fixed, named objects.
func (f *frame) havocChanged(st *State, changed []string) {
	e := f.e
	pre := st.clone()
	for _, name := range changed {
		if name == "W" {
			w0 := e.H(pre, "W", "Int") // the watermark before any of the havocs below (a class havoc renames W too)
			e.havoc(st, "W")
			e.assume(implies(st.cond, "(>= "+e.H(st, "W", "Int")+" "+w0+")"))
			continue
		}
		if name == "*class0" {
			e.preserving = !f.npBump
			e.keepOwn = true // own map heaps changed by the body are listed by name
			e.havocClass(st, 0)
			e.keepOwn = false
			e.preserving = false
			// the allocation watermark only grows
			e.assume(implies(st.cond, "(>= "+e.H(st, "W", "Int")+" "+e.H(pre, "W", "Int")+")"))
			if !f.npBump {
				// every class-0 havoc in the body preserved the objects owned by the root package
				f.preserve(pre, st, f.explicitW)
			}
			continue
		}
		if name == "*class1" {
			e.havocClass(st, 1)
			continue
		}
		e.havoc(st, name)
		if strings.HasPrefix(e.heapSort[name], "(Array Int ") && !changedClass(changed, e.class(name)) && !strings.HasPrefix(name, "*") {
			srt := e.heapSort[name]
			bound, excl := "", ""
			// every write goes to an object allocated by the writing iteration (fresh) or to an object
			// named by a term that is fixed across iterations: all other pre-existing objects are untouched
			if !f.badIdx[name] {
				ok := true
				seen := map[string]bool{}
				for _, it := range f.nonFreshIdx[name] {
					if !e.termDeclared(it) {
						ok = false
						break
					}
					if !seen[it] {
						seen[it] = true
						excl += " (not (= fr " + it + "))"
					}
				}
				if ok {
					bound = e.H(pre, "W", "Int")
				} else {
					excl = ""
				}
			}
			if bound == "" && (!f.notAlloc[name] || f.frameOK[name]) {
				// written only at objects allocated since the root function was entered
				// (syntactically evident, or proved inductive by inferFrames)
				bound = heapName("W", 0)
			}
			if bound != "" {
				e.declFun("owner", []string{"Int"}, "Int")
				e.assume(implies(st.cond, "(forall ((fr Int)) (=> (and (<= (owner fr) "+bound+")"+excl+") (= (select "+e.H(st, name, srt)+" fr) (select "+e.H(pre, name, srt)+" fr))))"))
			}
		}
	}
}

// analyseWrites classifies the write log of a probe (entries from wlogStart on).
func (f *frame) analyseWrites(wlogStart int, nfreshAtStart int, changedSet map[string]bool) {
	e := f.e
	f.freshOnly = map[string]bool{}
	f.explicitW = map[string]bool{}
	f.notAlloc = map[string]bool{}
	f.badIdx = map[string]bool{}
	f.idxTerms = map[string][]string{}
	f.nonFreshIdx = map[string][]string{}
	f.npBump = false
	notFresh := map[string]bool{}
	for _, wr := range e.wlog[wlogStart:] {
		if wr.name == "*np" {
			f.npBump = true
			continue
		}
		if !e.freshIdx(wr.idx, nfreshAtStart) {
			f.explicitW[wr.name] = true
			notFresh[wr.name] = true
			if wr.idx != "?" {
				f.nonFreshIdx[wr.name] = append(f.nonFreshIdx[wr.name], wr.idx)
			}
		}
		if !e.freshIdx(wr.idx, 0) {
			f.notAlloc[wr.name] = true
			if wr.idx == "?" {
				f.badIdx[wr.name] = true
			} else {
				f.idxTerms[wr.name] = append(f.idxTerms[wr.name], wr.idx)
			}
		}
	}
	for k := range changedSet {
		if !notFresh[k] && !strings.HasPrefix(k, "*") {
			f.freshOnly[k] = true
		}
	}
}

func changedClass(changed []string, c int) bool {
	for _, n := range changed {
		if n == fmt.Sprintf("*class%d", c) {
			return true
		}
	}
	return false
}

var freshIdxRe = regexp.MustCompile(`^(?:a!(\d+)|\((?:sub_\S+|fa_\S+|elemref|ea) a!(\d+)(?: [^()]*)?\))$`)

var freshResRe = regexp.MustCompile(`^(?:((?:ret|iret)!(\d+))|\((?:sub_\S+|fa_\S+|elemref|ea) ((?:ret|iret)!(\d+))(?: [^()]*)?\))$`)

// freshIdx: like isFreshIdx, and also the results of calls whose contracts declare them fresh.
func (e *Enc) freshIdx(idx string, after int) bool {
	if isFreshIdx(idx, after) {
		return true
	}
	m := freshResRe.FindStringSubmatch(idx)
	if m == nil {
		return false
	}
	name, num := m[1], m[2]
	if name == "" {
		name, num = m[3], m[4]
	}
	n, err := strconv.Atoi(num)
	return err == nil && n > after && e.freshRes[name]
}

func isFreshIdx(idx string, after int) bool {
	m := freshIdxRe.FindStringSubmatch(idx)
	if m == nil {
		return false
	}
	ns := m[1]
	if ns == "" {
		ns = m[2]
	}
	n, err := strconv.Atoi(ns)
	return err == nil && n > after
}

type loopInv struct {
	auto     bool
	text     string
	tags     []string
	spec     *SpecExpr
	autoTerm func(f *frame, entry map[*ssa.Phi]T) string
}

func (f *frame) pendingInv(b *ssa.BasicBlock, invs []loopInv, entry map[*ssa.Phi]T) {
	f.pinv[b] = &pendInv{invs, entry}
}

func (f *frame) fnPos() string {
	p := f.W().Fset.Position(f.fn.Pos())
	return fmt.Sprintf("%s:%d", strings.TrimPrefix(p.Filename, repoDir()+"/"), p.Line)
}

// loopInvariants: automatic bounds for counters plus user invariants from the contract.
func (f *frame) loopInvariants(b *ssa.BasicBlock, li *loopInfo, phis []*ssa.Phi) []loopInv {
	var out []loopInv
	for _, p := range phis {
		p := p
		bt, ok := p.Type().Underlying().(*types.Basic)
		if !ok || bt.Info()&types.IsInteger == 0 || intBits(p.Type()) != 64 {
			continue // narrower counters wrap; 64-bit arithmetic is mathematical (A-INT), so the bound is inductive
		}
		// find entry constant-or-value and step
		var step int64
		var stepOK = true
		nBack := 0
		for i, pred := range b.Preds {
			if !li.body[pred] {
				continue
			}
			nBack++
			bo, ok := p.Edges[i].(*ssa.BinOp)
			if !ok || (bo.Op != token.ADD && bo.Op != token.SUB) || bo.X != ssa.Value(p) {
				stepOK = false
				break
			}
			c, ok := bo.Y.(*ssa.Const)
			if !ok || c.Value == nil || c.Value.Kind() != constant.Int {
				stepOK = false
				break
			}
			v, _ := constant.Int64Val(c.Value)
			if bo.Op == token.SUB {
				v = -v
			}
			if step != 0 && (step > 0) != (v > 0) {
				stepOK = false
				break
			}
			step = v
		}
		if !stepOK || nBack == 0 || step == 0 {
			continue
		}
		op := ">="
		if step < 0 {
			op = "<="
		}
		out = append(out, loopInv{auto: true, text: "counter-bound", autoTerm: func(f *frame, entry map[*ssa.Phi]T) string {
			return "(" + op + " " + f.vals[p].S + " " + entry[p].S + ")"
		}})
	}
	if f.ct != nil {
		for _, l := range f.ct.Loops {
			if l.Ord == li.ord {
				for _, iv := range l.Invs {
					out = append(out, loopInv{text: iv.Text, tags: iv.Tags, spec: iv})
				}
			}
		}
	}
	return out
}

// localsAt binds source-level local variable names to the SSA values that hold them at block b
// (from the DebugRef instructions of blocks dominating b; later definitions win).
func (f *frame) localsAt(b *ssa.BasicBlock, env *specEnv) {
	cellNames := map[string]bool{}
	defer func() {
		for n := range cellNames {
			delete(env.vars, n)
		}
	}()
	for _, blk := range f.rpo {
		if !blk.Dominates(b) {
			continue
		}
		for _, ins := range blk.Instrs {
			if al, isAl := ins.(*ssa.Alloc); isAl && al.Comment != "" && !f.paramNames()[al.Comment] && token.IsIdentifier(al.Comment) {
				// a named local that lives in memory (address taken, e.g. captured by a closure): the name denotes
				// the cell's value in the state the expression is evaluated in -- not the value of some earlier store
				elT := al.Type().Underlying().(*types.Pointer).Elem().Underlying()
				_, isArr := elT.(*types.Array)
				_, isS := elT.(*types.Struct)
				if t, ok := f.vals[al]; ok && !isArr && !isS {
					if env.cells == nil {
						env.cells = map[string]T{}
					}
					env.cells[al.Comment] = t
					delete(env.vars, al.Comment)
					cellNames[al.Comment] = true
				}
				continue
			}
			dr, ok := ins.(*ssa.DebugRef)
			if !ok {
				continue
			}
			if dr.IsAddr {
				// an address-taken local array (var Q [N]T): the name denotes the array; specs index it as Q[k]
				if al, isAl := dr.X.(*ssa.Alloc); isAl {
					if id, isId := dr.Expr.(*ast.Ident); isId {
						elT := al.Type().Underlying().(*types.Pointer).Elem().Underlying()
						if _, isArr := elT.(*types.Array); isArr {
							if t, ok := f.vals[al]; ok {
								if _, exists := env.vars[id.Name]; !exists {
									env.vars[id.Name] = t
								}
							}
						} else if _, isS := elT.(*types.Struct); !isS {
							// an address-taken scalar local (e.g. captured by a closure): the name denotes the cell's
							// value in the state the expression is evaluated in
							if t, ok := f.vals[al]; ok && !f.paramNames()[id.Name] {
								if _, isCell := env.cells[id.Name]; !isCell {
									if env.cells == nil {
										env.cells = map[string]T{}
									}
									env.cells[id.Name] = t
									// the cell wins over values the name had at earlier program points
									delete(env.vars, id.Name)
									cellNames[id.Name] = true
								}
							}
						}
					}
				}
				continue
			}
			id, ok := dr.Expr.(*ast.Ident)
			if !ok {
				continue
			}
			if t, ok := f.vals[dr.X]; ok {
				if _, isParam := dr.X.(*ssa.Parameter); isParam {
					continue
				}
				if _, isCell := env.cells[id.Name]; isCell {
					continue // a captured variable: its name denotes the cell's value in the state of use
				}
				if _, exists := env.vars[id.Name]; exists {
					if _, isPhi := dr.X.(*ssa.Phi); !isPhi {
						// keep parameters and phis bound by name; otherwise the later definition wins
						if _, wasParam := f.paramNames()[id.Name]; wasParam {
							continue
						}
					}
				}
				env.vars[id.Name] = t
			}
		}
	}
}

func (f *frame) paramNames() map[string]bool {
	m := map[string]bool{}
	for _, p := range f.fn.Params {
		m[p.Name()] = true
	}
	return m
}

func (f *frame) evalLoopInv(iv loopInv, cur, old *State) string {
	env := f.specEnv(cur)
	if f.curHeader != nil {
		f.localsAt(f.curHeader, env)
		// header phis take precedence
		for _, ins := range f.curHeader.Instrs {
			if p, ok := ins.(*ssa.Phi); ok && p.Comment != "" {
				if t, ok := f.vals[p]; ok {
					env.vars[p.Comment] = t
				}
				// `rangeslice`: the slice a range loop iterates over, also when it is an unnamed value (the result
				// of a call in the range clause) - found as the operand indexed by the loop's implicit index
				if p.Comment == "rangeindex" && p.Referrers() != nil {
					for _, u := range *p.Referrers() {
						// go/ssa: t3 = rangeindex + 1 ; ... ; &s[t3]
						inc, ok := u.(*ssa.BinOp)
						if !ok || inc.Referrers() == nil {
							continue
						}
						for _, u2 := range *inc.Referrers() {
							if ia, ok := u2.(*ssa.IndexAddr); ok && ia.Index == inc {
								if t, ok := f.vals[ia.X]; ok {
									env.vars["rangeslice"] = t
								}
							}
						}
					}
				}
			}
		}
	}
	t, err := env.evalBool(iv.spec)
	if os.Getenv("GOVC_DEBUG") == "inv" {
		fmt.Fprintf(os.Stderr, "loopinv %q -> %s (vars has Gamma: %v, cells: %v)\n", iv.spec.Text, t, env.vars["Gamma"], env.cells)
	}
	if err != nil {
		f.e.note("loop invariant eval error: " + err.Error())
		return "true"
	}
	return t
}

// probeLoop runs the loop body once in probe mode to learn which heaps change.
func (f *frame) probeLoop(b *ssa.BasicBlock, li *loopInfo, phis []*ssa.Phi, st *State) []string {
	e := f.e
	snap := e.snap()
	wlogStart := len(e.wlog)
	e.probe++
	savedRets := len(f.rets)
	savedDefers := len(f.defers)
	ps := st.clone()
	for _, p := range phis {
		f.vals[p] = f.freshVal("probephi", p.Type(), ps)
		delete(f.addrs, p)
	}
	prc := &runCtx{edges: map[*ssa.BasicBlock][]edgeFrom{}, within: li.body, header: b}
	// execute header block then the rest of the body
	hst := ps.clone()
	f.execBlock(b, hst, prc)
	body := f.loopBlocks(li)
	var rest []*ssa.BasicBlock
	for _, x := range body {
		if x != b {
			rest = append(rest, x)
		}
	}
	f.runBlocks(rest, prc)
	changedSet := map[string]bool{}
	for _, be := range prc.back {
		for c := 0; c < 2; c++ {
			if be.st.base[c] != ps.base[c] {
				changedSet[fmt.Sprintf("*class%d", c)] = true
			}
		}
		names := map[string]bool{}
		for k := range be.st.heap {
			names[k] = true
		}
		for k := range ps.heap {
			names[k] = true
		}
		for k := range names {
			if e.ver(be.st, k) != e.ver(ps, k) {
				changedSet[k] = true
			}
		}
	}
	f.analyseWrites(wlogStart, snap.nfresh, changedSet)
	if e.probe == 1 {
		e.wlog = e.wlog[:wlogStart]
	}
	e.probe--
	e.rollback(snap)
	f.rets = f.rets[:savedRets]
	f.defers = f.defers[:savedDefers]
	var out []string
	for k := range changedSet {
		out = append(out, k)
	}
	sort.Strings(out)
	return out
}

// frameCandidates: heaps changed by the loop for which no syntactic frame rule applies.
func (f *frame) frameCandidates(changed []string) []string {
	e := f.e
	var out []string
	for _, name := range changed {
		if strings.HasPrefix(name, "*") || name == "W" || name == "EXCL" || name == "HELD" || strings.HasPrefix(name, "VIS_") || strings.HasPrefix(name, "LAST") || strings.HasPrefix(name, "CALLED_") || strings.HasPrefix(name, "COUNT_") || strings.HasPrefix(name, "ARGS_") {
			continue
		}
		if !strings.HasPrefix(e.heapSort[name], "(Array Int ") || changedClass(changed, e.class(name)) {
			continue
		}
		if f.freshOnly[name] || !f.notAlloc[name] {
			continue
		}
		if !f.badIdx[name] {
			all := true
			for _, it := range f.nonFreshIdx[name] {
				if !e.termDeclared(it) {
					all = false
				}
			}
			if all {
				continue // the syntactic rule of havocChanged applies
			}
		}
		out = append(out, name)
	}
	return out
}

func (e *Enc) frameTerm(cur, pre *State, name string) string {
	srt := e.heapSort[name]
	e.declFun("owner", []string{"Int"}, "Int")
	return "(forall ((fr Int)) (=> (<= (owner fr) " + heapName("W", 0) + ") (= (select " + e.H(cur, name, srt) + " fr) (select " + e.H(pre, name, srt) + " fr))))"
}

// inferFrames finds, Houdini style, the heaps for which "objects allocated before the root function
// was entered keep their contents" is an inductive invariant of the loop: the candidates are assumed
// at the header, the body is executed in probe mode, and each candidate is checked at the back edges
// by the solver; failing candidates are dropped and the check repeated.
func (f *frame) inferFrames(b *ssa.BasicBlock, li *loopInfo, phis []*ssa.Phi, st *State, changed []string,
	invs []loopInv, entry map[*ssa.Phi]T) map[string]bool {
	e := f.e
	ok := map[string]bool{}
	cands := f.frameCandidates(changed)
	if len(cands) == 0 || e.probe > 1 || os.Getenv("GOVC_NO_HOUDINI") != "" {
		return ok
	}
	// keep the write classification of the outer probe
	sFresh, sExp, sNot, sBad, sIdx, sNp := f.freshOnly, f.explicitW, f.notAlloc, f.badIdx, f.idxTerms, f.npBump
	restore := func() {
		f.freshOnly, f.explicitW, f.notAlloc, f.badIdx, f.idxTerms, f.npBump = sFresh, sExp, sNot, sBad, sIdx, sNp
	}
	for iter := 0; iter < 4 && len(cands) > 0; iter++ {
		snap := e.snap()
		wl := len(e.wlog)
		e.probe++
		savedRets, savedDefers := len(f.rets), len(f.defers)
		hs := st.clone()
		for _, p := range phis {
			f.vals[p] = f.freshVal("hphi", p.Type(), hs)
			delete(f.addrs, p)
		}
		restore()
		f.frameOK = map[string]bool{}
		for _, c := range cands {
			f.frameOK[c] = true
		}
		f.havocChanged(hs, changed)
		for _, iv := range invs {
			var t string
			if iv.auto {
				t = iv.autoTerm(f, entry)
			} else {
				t = f.evalLoopInv(iv, hs, hs)
			}
			e.assume(implies(hs.cond, t))
		}
		prc := &runCtx{edges: map[*ssa.BasicBlock][]edgeFrom{}, within: li.body, header: b}
		f.execBlock(b, hs.clone(), prc)
		var rest []*ssa.BasicBlock
		for _, x := range f.loopBlocks(li) {
			if x != b {
				rest = append(rest, x)
			}
		}
		f.runBlocks(rest, prc)
		// one incremental script for all candidates
		var sb strings.Builder
		sb.WriteString(prelude)
		for _, d := range e.decls {
			sb.WriteString(d)
			sb.WriteByte('\n')
		}
		for _, it := range e.items {
			if it.ob == nil {
				sb.WriteString(it.assert)
				sb.WriteByte('\n')
			}
		}
		var goals []string
		for _, c := range cands {
			var gs []string
			for _, be := range prc.back {
				gs = append(gs, implies(be.cond, e.frameTerm(be.st, st, c)))
			}
			goals = append(goals, and(gs...))
		}
		// frameTerm may have declared heap versions after the declarations were written: re-render
		sb.Reset()
		sb.WriteString(prelude)
		for _, d := range e.decls {
			sb.WriteString(d)
			sb.WriteByte('\n')
		}
		for _, it := range e.items {
			if it.ob == nil {
				sb.WriteString(it.assert)
				sb.WriteByte('\n')
			}
		}
		for _, g := range goals {
			sb.WriteString("(push 1)\n(assert (not " + g + "))\n(check-sat)\n(pop 1)\n")
		}
		ans, _, _ := runSolver(&solvers[0], sb.String(), 800, len(goals))
		var keep []string
		for i, c := range cands {
			if i < len(ans) && ans[i] == "unsat" {
				keep = append(keep, c)
			}
		}
		e.probe--
		if e.probe == 0 {
			e.wlog = e.wlog[:wl]
		}
		e.rollback(snap)
		f.rets, f.defers = f.rets[:savedRets], f.defers[:savedDefers]
		if os.Getenv("GOVC_DEBUG") != "" {
			fmt.Fprintf(os.Stderr, "inferFrames %s loop%d iter %d: cands=%v answers=%v keep=%v backedges=%d\n", relName(f.fn), li.ord, iter, cands, ans, keep, len(prc.back))
		}
		if len(keep) == len(cands) {
			break
		}
		cands = keep
	}
	restore()
	for _, c := range cands {
		ok[c] = true
	}
	return ok
}

// execBlock runs the non-phi instructions of b and records outgoing edges.
func (f *frame) execBlock(b *ssa.BasicBlock, st *State, rc *runCtx) {
	for _, ins := range b.Instrs {
		if _, ok := ins.(*ssa.Phi); ok {
			continue
		}
		if st.cond == "false" {
			return
		}
		switch i := ins.(type) {
		case *ssa.If:
			c := f.val(i.Cond, st).S
			f.addEdge(b, b.Succs[0], and(st.cond, c), st, rc)
			f.addEdge(b, b.Succs[1], and(st.cond, not(c)), st, rc)
			return
		case *ssa.Jump:
			f.addEdge(b, b.Succs[0], st.cond, st, rc)
			return
		case *ssa.Return:
			var vs []T
			for _, r := range i.Results {
				vs = append(vs, f.val(r, st))
			}
			_, rp := f.anchor(i)
			f.rets = append(f.rets, retEdge{st.cond, st.clone(), vs, rp, b})
			return
		case *ssa.Panic:
			if f.panicsIff(i, st) {
				return
			}
			if f.ct != nil && f.ct.PanicAssumed {
				f.e.assumed["documented panic of "+f.ct.Rel+" assumed unreachable under its requires (trusted numeric link)"] = true
				return
			}
			f.safety(i, "panic", st, "false")
			return
		default:
			f.assertsAt(ins, st)
			f.exec(ins, st)
		}
	}
}

// panicsIff: an explicit panic of a root function with a panics_iff clause must happen only when the clause holds.
func (f *frame) panicsIff(at ssa.Instruction, st *State) bool {
	if f != f.root || f.ct == nil || f.ct.PanicsIff == nil {
		return false
	}
	env := f.specEnv(f.entrySt)
	env.pkg = f.ct.Pkg
	t, err := env.evalBool(f.ct.PanicsIff)
	if err != nil {
		f.e.note("panics_iff eval: " + err.Error())
		return false
	}
	an, pos := f.anchor(at)
	f.e.addOb("panics-only-if", f.ct.PanicsIff.Text+"|"+an, f.ct.PanicsIff.Tags, pos, st.cond, t)
	return true
}

// assertsAt checks the contract's ghost assertions attached to calls and sends of a source line.
func (f *frame) assertsAt(ins ssa.Instruction, st *State) {
	if f.ct == nil || len(f.ct.AssertAt) == 0 || f != f.root {
		return
	}
	switch ins.(type) {
	case *ssa.Call, *ssa.Send, *ssa.Select:
	default:
		return
	}
	line := f.W().srcLine(f.posOf(ins))
	for _, a := range f.ct.AssertAt {
		if !strings.Contains(line, a.Sub) {
			continue
		}
		switch c := ins.(type) {
		case *ssa.Call:
			name := ""
			if c.Call.IsInvoke() {
				name = c.Call.Method.Name()
			} else if sc := c.Call.StaticCallee(); sc != nil {
				name = sc.Name()
			}
			if name != a.What {
				continue
			}
		default:
			if a.What != "send" {
				continue
			}
		}
		env := f.specEnv(st)
		f.localsAt(ins.Block(), env)
		// values defined earlier in the same block
		for _, j := range ins.Block().Instrs {
			if j == ins {
				break
			}
			if dr, ok := j.(*ssa.DebugRef); ok && !dr.IsAddr {
				if id, ok := dr.Expr.(*ast.Ident); ok {
					if t, ok := f.vals[dr.X]; ok {
						env.vars[id.Name] = t
					}
				}
			}
		}
		env.pkg = f.ct.Pkg
		if c, ok := ins.(*ssa.Call); ok {
			// the actual arguments of the call are available as arg0, arg1, ... (receiver first)
			for k, a := range c.Call.Args {
				env.vars[fmt.Sprintf("arg%d", k)] = f.val(a, st)
			}
		}
		if sd, ok := ins.(*ssa.Send); ok {
			env.vars["sent"] = f.val(sd.X, st)
		}
		t, err := env.evalBool(a.Spec)
		if err != nil {
			f.e.note("assert_at eval: " + err.Error())
			continue
		}
		an, pos := f.anchor(ins)
		f.e.addOb("assert", a.Spec.Text+"|"+an, a.Spec.Tags, pos, st.cond, t)
		// vacuity guard: the anchored call must be reachable in the model, otherwise the assertion says nothing
		if f.e.probe == 0 {
			f.e.items = append(f.e.items, item{ob: &Obligation{Name: f.root.ct.Rel + "#cover:assert:" + a.Spec.Text + "|" + an, Fn: f.root.ct.Rel, Kind: "cover", Tags: a.Spec.Tags, Goal: st.cond, idx: len(f.e.items)}})
		}
		if f.e.probe == 0 {
			f.assertHit[a.Spec] = true
		}
	}
}

func (f *frame) addEdge(from, to *ssa.BasicBlock, cond string, st *State, rc *runCtx) {
	if cond == "false" {
		return
	}
	// name the edge condition to keep terms small
	c := cond
	if len(cond) > 40 {
		c = f.e.fresh("edge", "Bool")
		f.e.assume("(= " + c + " " + cond + ")")
	}
	if to.Dominates(from) && f.loops[to] != nil {
		// back edge: check invariants, do not propagate
		if rc.header == to {
			rc.back = append(rc.back, edgeFrom{from, c, st.clone()})
			return
		}
		f.checkBackEdge(from, to, c, st)
		return
	}
	if rc.within != nil && !rc.within[to] {
		return // leaves the probed loop
	}
	rc.edges[to] = append(rc.edges[to], edgeFrom{from, c, st.clone()})
}

func (f *frame) checkBackEdge(from, to *ssa.BasicBlock, cond string, st *State) {
	pi, ok := f.pinv[to]
	if !ok {
		return
	}
	li := f.loops[to]
	f.curHeader = to
	// bind phis to their back-edge values
	saved := map[*ssa.Phi]T{}
	idx := f.predIndex(to, from)
	s2 := st.clone()
	s2.cond = cond
	for _, ins := range to.Instrs {
		p, ok := ins.(*ssa.Phi)
		if !ok {
			break
		}
		saved[p] = f.vals[p]
	}
	newv := map[*ssa.Phi]T{}
	for p := range saved {
		newv[p] = f.val(p.Edges[idx], s2)
	}
	for p, v := range newv {
		f.vals[p] = v
	}
	for _, iv := range pi.invs {
		var t string
		if iv.auto {
			continue // inductive by construction
		}
		t = f.evalLoopInv(iv, s2, s2)
		f.e.addOb("inv-step", fmt.Sprintf("loop%d:%s", li.ord, iv.text), f.invTags(iv.tags), f.fnPos(), cond, t)
	}
	for p, v := range saved {
		f.vals[p] = v
	}
}

// invTags: a loop invariant is assumed at the loop head, so its entry/step obligations must be checked by some check
// of the same root. An invariant of an INLINED helper tagged only with properties the root is not registered for would
// be assumed but never checked: its obligations then count for every property of the root (untagged).
func (f *frame) invTags(tags []string) []string {
	if f == f.root || len(tags) == 0 || f.root == nil || f.root.ct == nil {
		return tags
	}
	props := contractProps(f.root.ct)
	for _, t := range tags {
		if props[t] {
			return tags
		}
	}
	return nil
}

// recoverDeferOf returns the Defer instruction of fn whose closure calls recover(), if any.
func recoverDeferOf(fn *ssa.Function) *ssa.Defer {
	for _, b := range fn.Blocks {
		for _, ins := range b.Instrs {
			d, ok := ins.(*ssa.Defer)
			if !ok {
				continue
			}
			var cl *ssa.Function
			switch v := d.Call.Value.(type) {
			case *ssa.MakeClosure:
				cl, _ = v.Fn.(*ssa.Function)
			case *ssa.Function:
				cl = v
			}
			if cl == nil {
				continue
			}
			for _, cb := range cl.Blocks {
				for _, ci := range cb.Instrs {
					if c, ok := ci.(*ssa.Call); ok {
						if bi, ok := c.Call.Value.(*ssa.Builtin); ok && bi.Name() == "recover" {
							return d
						}
					}
				}
			}
		}
	}
	return nil
}

// recoveredAt: would a panic raised at instruction i be caught by a deferred recover()? Yes if the function that
// contains i registered such a defer on every path to i, or if a caller on the inlined stack has executed one.
func (f *frame) recoveredAt(i ssa.Instruction) bool {
	if i != nil && i.Parent() == f.fn && i.Block() != nil {
		if d := recoverDeferOf(f.fn); d != nil {
			if d.Block() == i.Block() {
				for _, ins := range d.Block().Instrs {
					if ins == ssa.Instruction(d) {
						return true
					}
					if ins == i {
						break
					}
				}
			} else if d.Block().Dominates(i.Block()) {
				return true
			}
		}
	}
	for _, g := range f.stack {
		if f.e.recoverSeen[g] {
			return true
		}
	}
	return false
}
