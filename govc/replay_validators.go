package main

import (
	"fmt"
	"regexp"
	"strings"
)

func init() {
	replayDrivers = append(replayDrivers, replayValidator)
}

// Driver R4: the numeric validators (pedersen.ValidateParameters, arith.IsValidNatModN). A refuted value-level clause
// comes with a model: the numbers the solver chose for the arguments are read from it (parameter references and the
// natval ghost heap at entry) and the real function is run on them - and on a small boundary lattice around the
// validity rules (zero, N, N+1, a common factor, equal S and T, an absent number) - against an independent
// computation of the rule with math/big. A disagreement reproduces the violation; the inputs are recorded.
var (
	paramRefRe  = regexp.MustCompile(`\(define-fun p_(\w+) \(\) Int\s+(\d+)\)`)
	natvalDefRe = regexp.MustCompile(`(?s)\(define-fun GV_natval@0 \(\) \(Array Int Int\)\s+(.*?)\)\s*\(define-fun`)
	constArrRe  = regexp.MustCompile(`\(\(as const \(Array Int Int\)\) (\(- \d+\)|\d+)\)`)
	storeRe     = regexp.MustCompile(`\s(\d+)\s+(\(- \d+\)|\d+)\)`)
)

func smtNum(s string) string {
	s = strings.TrimSpace(s)
	if strings.HasPrefix(s, "(-") {
		return "-" + strings.TrimSpace(strings.TrimSuffix(strings.TrimPrefix(s, "(-"), ")"))
	}
	return s
}

// natvalsFromModel returns the entry value of natval for each pointer parameter named in the model.
func natvalsFromModel(model string) map[string]string {
	out := map[string]string{}
	m := natvalDefRe.FindStringSubmatch(model + "\n(define-fun")
	if m == nil {
		return out
	}
	body := m[1]
	def := "0"
	if c := constArrRe.FindStringSubmatch(body); c != nil {
		def = smtNum(c[1])
	}
	stores := map[string]string{}
	for _, s := range storeRe.FindAllStringSubmatch(body, -1) {
		stores[s[1]] = smtNum(s[2])
	}
	for _, p := range paramRefRe.FindAllStringSubmatch(model, -1) {
		if p[2] == "0" {
			continue // nil
		}
		if v, ok := stores[p[2]]; ok {
			out[p[1]] = v
		} else {
			out[p[1]] = def
		}
	}
	return out
}

func replayValidator(w *World, ob *Obligation, rep map[string]interface{}) (bool, string) {
	switch ob.Kind {
	case "post", "inv-step", "inv-entry", "panics-only-if", "returns-only-if-not", "callee-panics":
	default:
		return false, ""
	}
	vals := natvalsFromModel(ob.Model)
	big := func(name, dflt string) string {
		v, ok := vals[name]
		if !ok || strings.HasPrefix(v, "-") {
			v = dflt
		}
		return fmt.Sprintf("%q", v)
	}
	switch ob.Fn {
	case "pkg/pedersen:ValidateParameters":
		src := `package pedersen

import (
	"math/big"
	"testing"

	"github.com/cronokirby/saferith"
)

func govcNat(s string) *saferith.Nat {
	if s == "" {
		return nil
	}
	b, _ := new(big.Int).SetString(s, 10)
	return new(saferith.Nat).SetBig(b, b.BitLen()+1)
}

// the validity rule, computed independently: present, 0 < s,t < N, coprime to N, s != t
func govcRule(n, s, t string) bool {
	if n == "" || s == "" || t == "" {
		return false
	}
	N, _ := new(big.Int).SetString(n, 10)
	for _, x := range []string{s, t} {
		v, _ := new(big.Int).SetString(x, 10)
		if v.Sign() <= 0 || v.Cmp(N) >= 0 || new(big.Int).GCD(nil, nil, v, N).Cmp(big.NewInt(1)) != 0 {
			return false
		}
	}
	return s != t
}

func TestGovcReplayValidateParameters(t *testing.T) {
	cases := [][3]string{
		{` + big("n", "15") + `, ` + big("s", "4") + `, ` + big("t", "4") + `}, // the solver's model
		{"15", "4", "2"}, {"15", "4", "4"}, {"15", "0", "2"}, {"15", "2", "0"}, {"15", "3", "2"}, {"15", "2", "5"},
		{"15", "15", "2"}, {"15", "16", "2"}, {"15", "2", "16"}, {"15", "", "2"}, {"15", "2", ""}, {"77", "76", "2"},
	}
	for _, c := range cases {
		if c[0] == "0" {
			continue
		}
		N, _ := new(big.Int).SetString(c[0], 10)
		if N.Sign() <= 0 || N.Bit(0) == 0 {
			continue // saferith moduli are odd and positive
		}
		got := ValidateParameters(saferith.ModulusFromNat(govcNat(c[0])), govcNat(c[1]), govcNat(c[2])) == nil
		if want := govcRule(c[0], c[1], c[2]); got != want {
			t.Errorf("ValidateParameters(N=%s, s=%q, t=%q): accepted=%v, the validity rule says %v", c[0], c[1], c[2], got, want)
			return
		}
	}
}
`
		return runOverlayTest(rep, "pkg/pedersen", "zz_govc_replay_validator_test.go", src, "TestGovcReplayValidateParameters")
	case "pkg/math/arith:IsValidNatModN":
		src := `package arith

import (
	"math/big"
	"testing"

	"github.com/cronokirby/saferith"
)

func govcNat(s string) *saferith.Nat {
	if s == "" {
		return nil
	}
	b, _ := new(big.Int).SetString(s, 10)
	return new(saferith.Nat).SetBig(b, b.BitLen()+1)
}

func TestGovcReplayIsValidNatModN(t *testing.T) {
	N := "15"
	for _, xs := range [][]string{{"4"}, {"0"}, {"15"}, {"16"}, {"3"}, {"4", "3"}, {"3", "4"}, {"4", "2"}, {""}, {"4", ""}, {"14"}, {"1"}} {
		want := true
		var args []*saferith.Nat
		n, _ := new(big.Int).SetString(N, 10)
		for _, x := range xs {
			args = append(args, govcNat(x))
			if x == "" {
				want = false
				continue
			}
			v, _ := new(big.Int).SetString(x, 10)
			if v.Cmp(n) >= 0 || new(big.Int).GCD(nil, nil, v, n).Cmp(big.NewInt(1)) != 0 {
				want = false
			}
		}
		if got := IsValidNatModN(saferith.ModulusFromNat(govcNat(N)), args...); got != want {
			t.Errorf("IsValidNatModN(%s, %q) = %v, the rule (present, below N, coprime to N) says %v", N, xs, got, want)
			return
		}
	}
}
`
		return runOverlayTest(rep, "pkg/math/arith", "zz_govc_replay_validator_test.go", src, "TestGovcReplayIsValidNatModN")
	}
	switch ob.Fn {
	case "pkg/paillier:(*Ciphertext).Add", "pkg/paillier:(*Ciphertext).Mul", "pkg/paillier:(Ciphertext).Clone":
		src := `package paillier

import (
	"math/big"
	"testing"

	"github.com/cronokirby/saferith"
)

// ciphertext operations against big-integer arithmetic: product mod N^2, signed power mod N^2, copy
func TestGovcReplayCiphertextOps(t *testing.T) {
	n := new(saferith.Nat).SetUint64(3233) // 61 * 53: any odd modulus serves the value-level identities
	pk := NewPublicKey(saferith.ModulusFromNat(n))
	nn := big.NewInt(3233 * 3233)
	for _, x := range []int64{1, 2, 3234, 10452288, 5000000} {
		for _, y := range []int64{1, 7, 3234, 10452287, 61} {
			a := &Ciphertext{c: new(saferith.Nat).SetUint64(uint64(x))}
			b := &Ciphertext{c: new(saferith.Nat).SetUint64(uint64(y))}
			cl := a.Clone()
			if cl.c.Big().Int64() != x {
				t.Fatalf("Clone(%d) = %v", x, cl.c.Big())
			}
			a.Add(pk, b)
			want := new(big.Int).Mod(new(big.Int).Mul(big.NewInt(x), big.NewInt(y)), nn)
			if a.c.Big().Cmp(want) != 0 {
				t.Fatalf("Add: %d (+) %d = %v, the product mod N^2 is %v", x, y, a.c.Big(), want)
			}
		}
		for _, k := range []int64{0, 1, 2, 5, -1, -3} {
			xb := big.NewInt(x)
			if new(big.Int).GCD(nil, nil, xb, nn).Cmp(big.NewInt(1)) != 0 {
				continue
			}
			c := &Ciphertext{c: new(saferith.Nat).SetUint64(uint64(x))}
			c.Mul(pk, new(saferith.Int).SetBig(big.NewInt(k), 8))
			base := xb
			e := big.NewInt(k)
			if k < 0 {
				base = new(big.Int).ModInverse(xb, nn)
				e = big.NewInt(-k)
			}
			want := new(big.Int).Exp(base, e, nn)
			if c.c.Big().Cmp(want) != 0 {
				t.Fatalf("Mul: %d (.) %d = %v, the power mod N^2 is %v", k, x, c.c.Big(), want)
			}
		}
	}
}
`
		return runOverlayTest(rep, "pkg/paillier", "zz_govc_replay_validator_test.go", src, "TestGovcReplayCiphertextOps")
	case "pkg/paillier:(*SecretKey).Dec", "pkg/paillier:NewSecretKeyFromPrimes", "pkg/paillier:(PublicKey).EncWithNonce", "pkg/paillier:(PublicKey).Enc":
		src := `package paillier

import (
	"math/big"
	"testing"

	"github.com/cronokirby/saferith"
	"github.com/taurusgroup/multi-party-sig/pkg/pool"
)

// decryption inverts encryption on the boundary lattice of the plaintext range, also with a key rebuilt from its primes
func TestGovcReplayRoundTrip(t *testing.T) {
	pl := pool.NewPool(0)
	defer pl.TearDown()
	sk := NewSecretKey(pl)
	sk2 := NewSecretKeyFromPrimes(sk.P(), sk.Q())
	half := new(big.Int).Rsh(new(big.Int).Sub(sk.N().Big(), big.NewInt(1)), 1)
	ms := []*big.Int{big.NewInt(0), big.NewInt(1), big.NewInt(-1), half, new(big.Int).Neg(half),
		new(big.Int).Sub(half, big.NewInt(1)), new(big.Int).Lsh(big.NewInt(1), 256), new(big.Int).Neg(new(big.Int).Lsh(big.NewInt(1), 1024)), big.NewInt(123456789)}
	for _, m := range ms {
		mi := new(saferith.Int).SetBig(m, m.BitLen()+1)
		ct, _ := sk.Enc(mi)
		for i, k := range []*SecretKey{sk, sk2} {
			got, err := k.Dec(ct)
			if err != nil {
				t.Fatalf("key %d: Dec(Enc(%v)) fails: %v", i, m, err)
			}
			if got.Big().Cmp(m) != 0 {
				t.Fatalf("key %d: Dec(Enc(%v)) = %v", i, m, got.Big())
			}
		}
	}
	// anything outside [-(N-1)/2, (N-1)/2] is refused (documented panic), the endpoints are not
	refused := func(m *big.Int) (p bool) {
		defer func() { p = recover() != nil }()
		sk.Enc(new(saferith.Int).SetBig(m, m.BitLen()+1))
		return false
	}
	out := new(big.Int).Add(half, big.NewInt(1))
	for _, m := range []*big.Int{out, new(big.Int).Neg(out), sk.N().Big(), new(big.Int).Lsh(half, 1)} {
		if !refused(m) {
			t.Fatalf("Enc(%v) is accepted although it is outside the plaintext range", m)
		}
	}
	for _, m := range []*big.Int{half, new(big.Int).Neg(half)} {
		if refused(m) {
			t.Fatalf("Enc(%v) is refused although it is an endpoint of the plaintext range", m)
		}
	}
}
`
		return runOverlayTest(rep, "pkg/paillier", "zz_govc_replay_roundtrip_test.go", src, "TestGovcReplayRoundTrip")
	case "pkg/math/polynomial:lagrange", "pkg/math/polynomial:Lagrange", "pkg/math/polynomial:LagrangeFor", "pkg/math/polynomial:getScalarsAndNumerator":
		src := `package polynomial

import (
	"crypto/rand"
	"testing"

	"github.com/taurusgroup/multi-party-sig/pkg/math/curve"
	"github.com/taurusgroup/multi-party-sig/pkg/math/sample"
	"github.com/taurusgroup/multi-party-sig/pkg/party"
)

// shares of a random polynomial of degree 2, recombined with the coefficients of every subset of 3 and 4 of 5 parties,
// must give back the secret - in the field and in the exponent
func TestGovcReplayLagrange(t *testing.T) {
	group := curve.Secp256k1{}
	secret := sample.Scalar(rand.Reader, group)
	f := NewPolynomial(group, 2, secret)
	all := []party.ID{"a", "b", "c", "d", "e"}
	subsets := [][]party.ID{{"a", "b", "c"}, {"c", "d", "e"}, {"e", "a", "c"}, {"b", "d", "e", "a"}, all}
	for _, ids := range subsets {
		coeffs := Lagrange(group, ids)
		sum := group.NewScalar()
		pub := group.NewPoint()
		for _, id := range ids {
			share := f.Evaluate(id.Scalar(group))
			sum.Add(group.NewScalar().Set(coeffs[id]).Mul(share))
			pub = pub.Add(coeffs[id].Act(share.ActOnBase()))
		}
		if !sum.Equal(secret) {
			t.Fatalf("shares of %v recombine to %v, the secret is %v", ids, sum, secret)
		}
		if !pub.Equal(secret.ActOnBase()) {
			t.Fatalf("public shares of %v do not recombine to the public key", ids)
		}
	}
}
`
		return runOverlayTest(rep, "pkg/math/polynomial", "zz_govc_replay_lagrange_test.go", src, "TestGovcReplayLagrange")
	case "pkg/pedersen:(Parameters).Verify", "pkg/pedersen:(Parameters).Commit":
		src := `package pedersen

import (
	"math/big"
	"testing"

	"github.com/cronokirby/saferith"
	"github.com/taurusgroup/multi-party-sig/pkg/math/arith"
)

func govcPNat(v int64) *saferith.Nat { return new(saferith.Nat).SetUint64(uint64(v)) }
func govcPInt(v int64) *saferith.Int { return new(saferith.Int).SetBig(big.NewInt(v), 16) }

func govcPow(b, e, n int64) *big.Int {
	base := big.NewInt(b)
	ex := big.NewInt(e)
	if e < 0 {
		base = new(big.Int).ModInverse(base, big.NewInt(n))
		ex = big.NewInt(-e)
	}
	return new(big.Int).Exp(base, ex, big.NewInt(n))
}

// Commit and Verify against big-integer arithmetic over a small modulus: s^a t^b = S T^e (mod N)
func TestGovcReplayPedersen(t *testing.T) {
	const N, s, tt = 3233, 4, 9
	p := New(arith.ModulusFromN(saferith.ModulusFromNat(govcPNat(N))), govcPNat(s), govcPNat(tt))
	for _, x := range []int64{0, 1, 5, -3, 77} {
		for _, y := range []int64{0, 2, -1, 40} {
			want := new(big.Int).Mod(new(big.Int).Mul(govcPow(s, x, N), govcPow(tt, y, N)), big.NewInt(N))
			if got := p.Commit(govcPInt(x), govcPInt(y)).Big(); got.Cmp(want) != 0 {
				t.Fatalf("Commit(%d, %d) = %v, s^x t^y mod N = %v", x, y, got, want)
			}
		}
	}
	for _, c := range [][5]int64{{3, 5, 2, 16, 25}, {1, 1, 0, 36, 1}, {2, 0, 1, 4, 4}, {3, 5, 2, 17, 25}, {0, 0, 3, 1, 1}, {-2, 1, 1, 7, 8}} {
		a, b, e, S, T := c[0], c[1], c[2], c[3], c[4]
		lhs := new(big.Int).Mod(new(big.Int).Mul(govcPow(s, a, N), govcPow(tt, b, N)), big.NewInt(N))
		ok := new(big.Int).GCD(nil, nil, big.NewInt(S), big.NewInt(N)).Int64() == 1 && new(big.Int).GCD(nil, nil, big.NewInt(T), big.NewInt(N)).Int64() == 1
		want := false
		if ok {
			rhs := new(big.Int).Mod(new(big.Int).Mul(govcPow(T, e, N), big.NewInt(S)), big.NewInt(N))
			want = lhs.Cmp(rhs) == 0
		}
		if got := p.Verify(govcPInt(a), govcPInt(b), govcPInt(e), govcPNat(S), govcPNat(T)); got != want {
			t.Fatalf("Verify(a=%d b=%d e=%d S=%d T=%d) = %v, the equation says %v", a, b, e, S, T, got, want)
		}
	}
	if p.Verify(nil, govcPInt(1), govcPInt(1), govcPNat(4), govcPNat(9)) {
		t.Fatal("Verify accepts an absent exponent")
	}
}
`
		return runOverlayTest(rep, "pkg/pedersen", "zz_govc_replay_pedersen_test.go", src, "TestGovcReplayPedersen")
	case "internal/mta:newMta":
		src := `package mta

import (
	"crypto/rand"
	"math/big"
	"testing"

	"github.com/cronokirby/saferith"
	"github.com/taurusgroup/multi-party-sig/pkg/math/sample"
	"github.com/taurusgroup/multi-party-sig/pkg/paillier"
	"github.com/taurusgroup/multi-party-sig/pkg/pool"
)

// the conversion end to end on real keys: the receiver's decryption of D and the sender's beta add up to a*b
func TestGovcReplayMtA(t *testing.T) {
	pl := pool.NewPool(0)
	defer pl.TearDown()
	sender := paillier.NewSecretKey(pl)
	receiver := paillier.NewSecretKey(pl)
	q, _ := new(big.Int).SetString("fffffffffffffffffffffffffffffffebaaedce6af48a03bbfd25e8cd0364141", 16)
	for _, ab := range [][2]*big.Int{{big.NewInt(0), big.NewInt(5)}, {big.NewInt(1), big.NewInt(1)}, {big.NewInt(7), big.NewInt(0)},
		{new(big.Int).Sub(q, big.NewInt(1)), new(big.Int).Sub(q, big.NewInt(1))}, {big.NewInt(-3), big.NewInt(4)},
		{sample.IntervalL(rand.Reader).Big(), sample.IntervalL(rand.Reader).Big()}} {
		a := new(saferith.Int).SetBig(ab[0], 257)
		b := new(saferith.Int).SetBig(ab[1], 257)
		B, _ := receiver.Enc(b)
		D, F, _, _, betaNeg := newMta(a, B, sender, receiver.PublicKey)
		alpha, err := receiver.Dec(D)
		if err != nil {
			t.Fatalf("D does not decrypt: %v", err)
		}
		sum := new(big.Int).Sub(alpha.Big(), betaNeg.Big()) // alpha + beta
		if want := new(big.Int).Mul(ab[0], ab[1]); sum.Cmp(want) != 0 {
			t.Fatalf("a=%v b=%v: alpha + beta = %v, a*b = %v", ab[0], ab[1], sum, want)
		}
		fb, err := sender.Dec(F)
		if err != nil || fb.Big().Cmp(betaNeg.Big()) != 0 {
			t.Fatalf("F does not carry -beta under the sender's key: %v %v", fb, err)
		}
	}
}
`
		return runOverlayTest(rep, "internal/mta", "zz_govc_replay_validator_test.go", src, "TestGovcReplayMtA")
	}
	return false, ""
}
