package main

import (
	"os"
	"path/filepath"
	"sort"
	"strings"
)

// LemmaResult is a stand-alone SMT goal (composition lemma over contract spec functions)
// kept in /verif/lemmas/<name>.smt2 with header lines "; property: C19[,C09]" and "; expect: unsat|sat".
type LemmaResult struct {
	Name    string
	Props   []string
	Expect  string
	Script  string
	Ob      *Obligation
	Err     string
	Decided bool // a syntactic side condition: already decided, nothing to solve
}

func lemmasFor(db *ContractDB, prop string) []*LemmaResult {
	files, _ := filepath.Glob(filepath.Join(verifDir(), "lemmas", "*.smt2"))
	sort.Strings(files)
	var out []*LemmaResult
	for _, fn := range files {
		b, err := os.ReadFile(fn)
		if err != nil {
			continue
		}
		l := &LemmaResult{Name: strings.TrimSuffix(filepath.Base(fn), ".smt2"), Expect: "unsat", Script: string(b)}
		for _, line := range strings.Split(string(b), "\n") {
			line = strings.TrimSpace(line)
			if strings.HasPrefix(line, "; property:") {
				for _, p := range strings.Split(strings.TrimPrefix(line, "; property:"), ",") {
					l.Props = append(l.Props, strings.TrimSpace(p))
				}
			}
			if strings.HasPrefix(line, "; expect:") {
				l.Expect = strings.TrimSpace(strings.TrimPrefix(line, "; expect:"))
			}
		}
		if !hasTag(l.Props, prop) {
			continue
		}
		l.Ob = &Obligation{Name: "lemma:" + l.Name, Fn: "lemma", Kind: "lemma", Tags: l.Props, Pos: "lemmas/" + filepath.Base(fn), Goal: l.Name}
		out = append(out, l)
	}
	return out
}

func solveLemma(l *LemmaResult, timeoutMs int, all bool) {
	if l.Decided {
		return
	}
	for i := range solvers {
		s := &solvers[i]
		ans, raw, secs := runSolver(s, l.Script, timeoutMs, 1)
		if len(ans) == 0 {
			if strings.Contains(raw, "(error") && i == len(solvers)-1 && l.Ob.Status == "" {
				l.Err = "lemma " + l.Name + ": solver error: " + firstError(raw)
			}
			continue
		}
		a := ans[len(ans)-1]
		if a == l.Expect {
			l.Ob.Status = "discharged"
			l.Ob.Solver = s.name
			l.Ob.Secs = secs
			return
		}
		if a == "sat" || a == "unsat" {
			l.Ob.Status = "failed"
			l.Ob.Solver = s.name
			l.Ob.Model = trimModel(raw)
			return
		}
	}
	if l.Ob.Status == "" {
		l.Ob.Status = "unknown"
	}
}
