package main

import (
	"context"
	"os"
	"os/exec"
	"path/filepath"
	"sort"
	"strings"
	"time"
)

// LemmaResult is a stand-alone SMT goal (composition lemma over contract spec functions)
// kept in /verif/lemmas/<name>.smt2 with header lines "; property: C19[,C09]" and "; expect: unsat|sat".
type LemmaResult struct {
	Name     string
	Props    []string
	Expect   string
	Script   string
	Ob       *Obligation
	Err      string
	Decided  bool     // a syntactic side condition: already decided, nothing to solve
	LeanFile string   // a Lean lemma: checked by lean, not by an SMT solver
	Assumes  []string // "-- assumes: ..." / "; assumes: ..." header lines: hypotheses of the lemma nothing establishes
}

func lemmasFor(db *ContractDB, prop string) []*LemmaResult {
	files, _ := filepath.Glob(filepath.Join(verifDir(), "lemmas", "*.smt2"))
	sort.Strings(files)
	var out []*LemmaResult
	for _, fn := range files {
		b, err := os.ReadFile(fn)
		if err != nil {
			continue
		}
		l := &LemmaResult{Name: strings.TrimSuffix(filepath.Base(fn), ".smt2"), Expect: "unsat", Script: string(b)}
		for _, line := range strings.Split(string(b), "\n") {
			line = strings.TrimSpace(line)
			if strings.HasPrefix(line, "; property:") {
				for _, p := range strings.Split(strings.TrimPrefix(line, "; property:"), ",") {
					l.Props = append(l.Props, strings.TrimSpace(p))
				}
			}
			if strings.HasPrefix(line, "; assumes:") {
				l.Assumes = append(l.Assumes, "lemma "+l.Name+": "+strings.TrimSpace(strings.TrimPrefix(line, "; assumes:")))
			}
			if strings.HasPrefix(line, "; expect:") {
				l.Expect = strings.TrimSpace(strings.TrimPrefix(line, "; expect:"))
			}
		}
		if !hasTag(l.Props, prop) {
			continue
		}
		l.Ob = &Obligation{Name: "lemma:" + l.Name, Fn: "lemma", Kind: "lemma", Tags: l.Props, Pos: "lemmas/" + filepath.Base(fn), Goal: l.Name}
		out = append(out, l)
	}
	return out
}

// leanLemmasFor: lemmas/lean/*.lean with a "-- property: Cxx" header. They are checked by the Lean 4 kernel (lean on
// PATH, Mathlib pre-installed); a file passes only if lean exits 0 and reports neither an error nor a `sorry`.
func leanLemmasFor(prop string) []*LemmaResult {
	files, _ := filepath.Glob(filepath.Join(verifDir(), "lemmas", "lean", "*.lean"))
	sort.Strings(files)
	var out []*LemmaResult
	for _, fn := range files {
		b, err := os.ReadFile(fn)
		if err != nil {
			continue
		}
		l := &LemmaResult{Name: strings.TrimSuffix(filepath.Base(fn), ".lean"), Expect: "lean", Script: string(b), LeanFile: fn}
		for _, line := range strings.Split(string(b), "\n") {
			line = strings.TrimSpace(line)
			if strings.HasPrefix(line, "-- assumes:") {
				l.Assumes = append(l.Assumes, "lemma "+l.Name+": "+strings.TrimSpace(strings.TrimPrefix(line, "-- assumes:")))
			}
			if strings.HasPrefix(line, "-- property:") {
				for _, p := range strings.Split(strings.TrimPrefix(line, "-- property:"), ",") {
					l.Props = append(l.Props, strings.TrimSpace(p))
				}
			}
		}
		if !hasTag(l.Props, prop) {
			continue
		}
		l.Ob = &Obligation{Name: "lemma:" + l.Name, Fn: "lemma", Kind: "lemma", Tags: l.Props, Pos: "lemmas/lean/" + filepath.Base(fn), Goal: l.Name}
		out = append(out, l)
	}
	return out
}

func solveLeanLemma(l *LemmaResult, timeoutMs int) {
	t0 := time.Now()
	ctx, cancel := context.WithTimeout(context.Background(), time.Duration(timeoutMs)*time.Millisecond*30)
	defer cancel()
	cmd := exec.CommandContext(ctx, "lean", l.LeanFile)
	cmd.Dir = filepath.Dir(l.LeanFile)
	out, err := cmd.CombinedOutput()
	o := string(out)
	l.Ob.Solver = "lean4"
	l.Ob.Secs = time.Since(t0).Seconds()
	if ctx.Err() != nil {
		l.Ob.Status = "unknown"
		l.Ob.Model = "lean: timeout"
		return
	}
	if _, lookErr := exec.LookPath("lean"); lookErr != nil {
		l.Err = "lemma " + l.Name + ": lean is not on PATH"
		return
	}
	if err == nil && !strings.Contains(o, "error") && !strings.Contains(o, "sorry") {
		l.Ob.Status = "discharged"
		return
	}
	l.Ob.Status = "failed"
	if len(o) > 3000 {
		o = o[:3000]
	}
	l.Ob.Model = o
}

func solveLemma(l *LemmaResult, timeoutMs int, all bool) {
	if l.Decided {
		return
	}
	if l.LeanFile != "" {
		solveLeanLemma(l, timeoutMs)
		return
	}
	for i := range solvers {
		s := &solvers[i]
		ans, raw, secs := runSolver(s, l.Script, timeoutMs, 1)
		if len(ans) == 0 {
			if strings.Contains(raw, "(error") && i == len(solvers)-1 && l.Ob.Status == "" {
				l.Err = "lemma " + l.Name + ": solver error: " + firstError(raw)
			}
			continue
		}
		a := ans[len(ans)-1]
		if a == l.Expect {
			l.Ob.Status = "discharged"
			l.Ob.Solver = s.name
			l.Ob.Secs = secs
			return
		}
		if a == "sat" || a == "unsat" {
			l.Ob.Status = "failed"
			l.Ob.Solver = s.name
			l.Ob.Model = trimModel(raw)
			return
		}
	}
	if l.Ob.Status == "" {
		l.Ob.Status = "unknown"
	}
}
